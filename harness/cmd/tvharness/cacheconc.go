package main

import (
	"runtime"
	"context"
	"fmt"
	"sort"
	"strings"
	"sync"
	"sync/atomic"
	"time"

	"github.com/rbell/toolchest/storage"
)

func init() {
	components["cacheconc"] = &component{gen: genCacheConc, exec: func(x *execCtx) { runIsolated("cacheconc", x, 120*time.Second) }}
	components["cacheconc!case"] = &component{exec: execCacheConcCase}
}

func genCacheConc(g *genCtx) {
	rounds := int(40 * g.scale)
	if !g.quick() {
		rounds = int(1500 * g.scale)
	}
	renewOnly := false
	for _, a := range flagExtra {
		if a == "profile=C03" {
			renewOnly = true
		}
	}
	// renew: an overflowing Set lets the cache's own background sweep evict the oldest partition; the evicted keys are
	// re-inserted the moment the eviction becomes visible (i.e. while that sweep may still be finishing); at rest they are
	// the newest insertions and must all be present.  Large partitions, so that "still finishing" is a usable window.
	nRenew := 2
	if renewOnly {
		nRenew, rounds = 4, 0
	}
	if !g.quick() {
		nRenew *= 8
	}
	defer func() {
		for t := 0; t < nRenew; t++ {
			g.newCase("kind=stress")
			g.op("renew cap=%d root=%d rounds=%d seed=%d", []int{40000, 20000, 90000}[t%3], []int{4, 2, 3}[t%3], 10, g.rng.intn(1<<30))
		}
	}()
	for t := 0; t < rounds; t++ {
		g.newCase("kind=stress")
		r := g.rng
		capacity := []int{1, 4, 9, 64}[r.intn(4)]
		G := []int{2, 4, 8, 16}[r.intn(4)]
		if t%3 == 0 {
			// the "nothing missing within capacity" scenario: G writers insert <= Capacity() distinct keys in total, nothing else
			g.op("fill cap=64 g=16 seed=%d", r.intn(1<<30))
			continue
		}
		g.op("mix cap=%d g=%d ops=%d special=%d sweepms=%d seed=%d", capacity, G, r.rangeIn(50, 400), r.intn(2), []int{1, 3600000}[r.intn(2)], r.intn(1<<30))
	}
}

func execCacheConcCase(x *execCtx) {
	for x.in.Scan() {
		line := x.in.Text()
		if strings.HasPrefix(line, "case ") || line == "" {
			fmt.Fprintln(x.w, line)
			x.w.Flush()
			continue
		}
		toks := strings.Fields(line)
		f := fields(toks[1:])
		var obs string
		switch toks[0] {
		case "fill":
			obs = cacheFill(atoi(f["cap"]), atoi(f["g"]), uint64(atoi(f["seed"])))
		case "mix":
			obs = cacheMix(atoi(f["cap"]), atoi(f["g"]), atoi(f["ops"]), f["special"] == "1", atoi(f["sweepms"]), uint64(atoi(f["seed"])))
		case "renew":
			obs = cacheRenew(atoi(f["cap"]), atoi(f["root"]), atoi(f["rounds"]))
		default:
			obs = "bad-op"
		}
		x.out(line, obs)
		x.w.Flush()
	}
}

func sweeperLeft(cancel context.CancelFunc) int {
	cancel()
	deadline := time.Now().Add(time.Second)
	for {
		n := 0
		for _, g := range snapshot() {
			if g.mentions("storage.NewFifoMapCache") {
				n++
			}
		}
		if n == 0 || time.Now().After(deadline) {
			return n
		}
		time.Sleep(2 * time.Millisecond)
	}
}

// viewBad checks the C01 view clauses on a quiescent cache.
func viewBad(c *storage.FifoMapCache[int, int], universe int) int {
	bad := 0
	keys := c.Keys()
	seen := map[int]bool{}
	for _, k := range keys {
		if seen[k] {
			bad++
		}
		seen[k] = true
	}
	for k := 0; k < universe; k++ {
		if c.Contains(k) != seen[k] {
			bad++
		}
	}
	vals := c.Values()
	gets := []int{}
	for _, k := range keys {
		gets = append(gets, c.Get(k))
	}
	sort.Ints(vals)
	sort.Ints(gets)
	if !eqInts(vals, gets) {
		bad++
	}
	if c.Len() != len(keys) {
		bad++
	}
	if c.Len() > c.Capacity() {
		bad++
	}
	return bad
}

func cacheFill(capacity, G int, seed uint64) string {
	ctx, cancel := context.WithCancel(context.Background())
	c := storage.NewFifoMapCache[int, int](ctx, capacity, storage.WithSweepFrequency(time.Hour))
	total := c.Capacity()
	var wg sync.WaitGroup
	var panics atomic.Int64
	for gi := 0; gi < G; gi++ {
		wg.Add(1)
		go func(gi int) {
			defer wg.Done()
			defer func() {
				if r := recover(); r != nil {
					panics.Add(1)
				}
			}()
			for k := gi; k < total; k += G {
				c.Set(k, k*1000+gi)
			}
		}(gi)
	}
	wg.Wait()
	c.Sweep()
	time.Sleep(2 * time.Millisecond)
	c.Sweep()
	missing := 0
	for k := 0; k < total; k++ {
		if !c.Contains(k) || c.Get(k) != k*1000+k%G {
			missing++
		}
	}
	vb := viewBad(c, total)
	left := sweeperLeft(cancel)
	return fmt.Sprintf("panics=%d badget=0 viewbad=%d swbad=0 missing=%d sweeperleft=%d renewmissing=0 hang=0 %s", panics.Load(), vb, missing, left, raceObs())
}

func cacheMix(capacity, G, ops int, special bool, sweepMs int, seed uint64) string {
	ctx, cancel := context.WithCancel(context.Background())
	c := storage.NewFifoMapCache[int, int](ctx, capacity, storage.WithSweepFrequency(time.Duration(sweepMs)*time.Millisecond))
	universe := 3*capacity + 8
	if universe > 90 {
		universe = 90
	}
	// key k is written only by goroutine k % G when k < ownKeys ("single writer"), by anybody above
	ownKeys := universe / 2
	var panics, badget atomic.Int64
	last := make([]atomic.Int64, universe) // last value written by the owner (single-writer keys), -1 = deleted
	var wg sync.WaitGroup
	for gi := 0; gi < G; gi++ {
		wg.Add(1)
		go func(gi int) {
			defer wg.Done()
			r := newRng(seed + uint64(gi)*7907)
			seq := 0
			for i := 0; i < ops; i++ {
				func() {
					defer func() {
						if rec := recover(); rec != nil {
							panics.Add(1)
						}
					}()
					k := r.intn(universe)
					x := r.intn(100)
					switch {
					case x < 40:
						if k < ownKeys {
							k = (k/G)*G + gi // one of my own keys
							if k >= ownKeys {
								k = gi % ownKeys
								if k%G != gi%G {
									return
								}
							}
						}
						seq++
						v := k*100000 + gi*1000 + seq%1000 + 1
						c.Set(k, v)
						if k < ownKeys && k%G == gi {
							last[k].Store(int64(v))
						}
					case x < 62:
						// every value returned by Get was Set for that key
						if v := c.Get(k); v != 0 && v/100000 != k {
							badget.Add(1)
						}
					case x < 70:
						c.Contains(k)
					case x < 78:
						if k < ownKeys {
							if k%G != gi {
								return
							}
							last[k].Store(-1)
						}
						c.Delete(k)
					case x < 83:
						c.Len()
					case x < 88:
						c.Keys()
					case x < 92:
						c.Values()
					case x < 96:
						c.Sweep()
					case x < 98 && special:
						c.Resize(r.rangeIn(1, 2*capacity+1))
					case x < 100 && special:
						// Clear empties single-writer knowledge: handled by checking "last value or absent"
						c.Clear()
					default:
						c.Capacity()
					}
				}()
			}
		}(gi)
	}
	done := make(chan struct{})
	go func() { wg.Wait(); close(done) }()
	hang := 0
	select {
	case <-done:
	case <-time.After(30 * time.Second):
		hang = 1
	}
	swbad, vb := 0, 0
	if hang == 0 {
		c.Sweep()
		time.Sleep(2 * time.Millisecond) // let a spawned background sweep finish
		c.Sweep()
		vb = viewBad(c, universe)
		for k := 0; k < ownKeys; k++ {
			lv := last[k].Load()
			if c.Contains(k) {
				// present: it must hold its only writer's last value (0 = never written by its owner: then nobody wrote it)
				if lv <= 0 || int64(c.Get(k)) != lv {
					swbad++
				}
			}
		}
	}
	left := sweeperLeft(cancel)
	// cancelling the construction context ends the sweeper — and nothing else: the cache stays usable (no panic) by
	// several goroutines, through partition roll-overs, a Resize and a Clear
	var wgA sync.WaitGroup
	for g := 0; g < 3; g++ {
		wgA.Add(1)
		go func(g int) {
			defer wgA.Done()
			defer func() {
				if r := recover(); r != nil {
					panics.Add(1)
				}
			}()
			for i := 0; i < 3*c.Capacity()+10; i++ {
				c.Set(1000000+g*100000+i, i+1)
				if i%37 == 0 {
					c.Sweep()
				}
			}
			if g == 0 {
				c.Resize(c.Capacity() + 7)
				c.Clear()
				c.Set(5, 5)
			}
		}(g)
	}
	wgA.Wait()
	return fmt.Sprintf("panics=%d badget=%d viewbad=%d swbad=%d missing=0 sweeperleft=%d renewmissing=0 hang=%d %s", panics.Load(), badget.Load(), vb, swbad, left, hang, raceObs())
}

// cacheRenew: see genCacheConc.  One goroutine; the only concurrency is the cache's own background sweep.
func cacheRenew(capacity, root, rounds int) string {
	missing, vb, panics, left := 0, 0, 0, 0
	// the size of one partition, measured on a cache of the same configuration that is left alone while it sweeps
	pc := 0
	func() {
		defer func() { recover() }()
		ctx, cancel := context.WithCancel(context.Background())
		defer cancel()
		c := storage.NewFifoMapCache[int, int](ctx, capacity, storage.WithSweepFrequency(time.Hour), storage.WithBalancedPartitions(float64(root), 2))
		for k := 0; k <= c.Capacity(); k++ {
			c.Set(k, k+1)
		}
		time.Sleep(5 * time.Millisecond)
		c.Sweep()
		for pc < c.Capacity() && !c.Contains(pc) {
			pc++
		}
	}()
	for round := 0; round < rounds; round++ {
		func() {
			defer func() {
				if r := recover(); r != nil {
					panics++
				}
			}()
			ctx, cancel := context.WithCancel(context.Background())
			c := storage.NewFifoMapCache[int, int](ctx, capacity, storage.WithSweepFrequency(time.Hour), storage.WithBalancedPartitions(float64(root), 2))
			total := c.Capacity()
			for k := 0; k < total; k++ {
				c.Set(k, k+1)
			}
			c.Set(total, total+1) // one too many: the oldest partition goes, in the background
			deadline := time.Now().Add(2 * time.Second)
			for c.Contains(0) && time.Now().Before(deadline) {
				runtime.Gosched()
			}
			// the keys of the evicted partition are 0..pc-1: re-insert them, oldest first
			re := []int{}
			for k := 0; k < pc && k < total; k++ {
				c.Set(k, -k-1)
				re = append(re, k)
			}
			time.Sleep(5 * time.Millisecond)
			c.Sweep()
			time.Sleep(2 * time.Millisecond)
			// at rest the re-inserted keys are the newest insertions: as long as they are fewer than half the capacity none
			// of them can have been evicted again
			if len(re)*2 < total {
				for _, k := range re {
					if !c.Contains(k) || c.Get(k) != -k-1 {
						missing++
					}
				}
			}
			vb += viewBad(c, total+1)
			left += sweeperLeft(cancel)
		}()
	}
	return fmt.Sprintf("panics=%d badget=0 viewbad=%d swbad=0 missing=0 sweeperleft=%d renewmissing=%d hang=0 pc=%d %s", panics, vb, left, missing, pc, raceObs())
}
