package main

import (
	"fmt"
	"os"
	"os/exec"
	"regexp"
	"runtime"
	"strings"
	"time"
)

// ---- black-box quiescence detection from runtime.Stack (DESIGN §3.5) ----

type gor struct {
	id     int      // goroutine number
	state  string   // wait reason without the duration suffix
	frames []string // function names, innermost first
	where  []string // "file:line" of each frame
}

var gorHdr = regexp.MustCompile(`^goroutine (\d+) \[([^\],]+)(?:, [^\]]*)?\]:$`)

func snapshot() []gor {
	buf := make([]byte, 1<<20)
	for {
		n := runtime.Stack(buf, true)
		if n < len(buf) {
			buf = buf[:n]
			break
		}
		buf = make([]byte, 2*len(buf))
	}
	var out []gor
	var cur *gor
	for _, l := range strings.Split(string(buf), "\n") {
		if m := gorHdr.FindStringSubmatch(l); m != nil {
			gid := 0
			fmt.Sscanf(m[1], "%d", &gid)
			out = append(out, gor{id: gid, state: m[2]})
			cur = &out[len(out)-1]
			continue
		}
		if cur != nil && l != "" && l[0] == '\t' && len(cur.where) < len(cur.frames) {
			loc := strings.TrimSpace(l)
			if i := strings.Index(loc, " "); i > 0 {
				loc = loc[:i]
			}
			cur.where = append(cur.where, loc)
			continue
		}
		if cur == nil || l == "" || l[0] == '\t' || strings.HasPrefix(l, "created by ") {
			continue
		}
		if i := strings.LastIndex(l, "("); i > 0 {
			cur.frames = append(cur.frames, l[:i])
		}
	}
	return out
}

func (g gor) mentions(sub string) bool {
	for _, f := range g.frames {
		if strings.Contains(f, sub) {
			return true
		}
	}
	return false
}

// topIn returns the innermost frame whose name contains pkg.
func (g gor) topIn(pkg string) string {
	for _, f := range g.frames {
		if strings.Contains(f, pkg) {
			return f
		}
	}
	return ""
}

var srcCache = map[string][]string{}

// selectMentions reports whether the select statement at file:line (the statement a goroutine in
// state "select" is blocked in) mentions ident in one of its cases. The source is read from the
// path in the stack trace, i.e. from the tree the binary was built from.
func selectMentions(loc string, ident string) bool {
	i := strings.LastIndex(loc, ":")
	if i < 0 {
		return false
	}
	file := loc[:i]
	var line int
	fmt.Sscanf(loc[i+1:], "%d", &line)
	src, ok := srcCache[file]
	if !ok {
		data, err := os.ReadFile(file)
		if err != nil {
			return false
		}
		src = strings.Split(string(data), "\n")
		srcCache[file] = src
	}
	depth, started := 0, false
	for k := line - 1; k >= 0 && k < len(src); k++ {
		l := src[k]
		if strings.Contains(l, ident) && started {
			return true
		}
		for _, c := range l {
			if c == '{' {
				depth++
				started = true
			} else if c == '}' {
				depth--
			}
		}
		if started && depth <= 0 {
			return false
		}
	}
	return false
}

// whereOf returns the file:line of the innermost frame whose function name contains sub.
func (g gor) whereOf(sub string) string {
	for i, f := range g.frames {
		if strings.Contains(f, sub) && i < len(g.where) {
			return g.where[i]
		}
	}
	return ""
}

func blockedState(s string) bool {
	switch s {
	case "chan receive", "chan send", "select", "semacquire", "sync.Mutex.Lock", "sync.RWMutex.Lock", "sync.RWMutex.RLock",
		"sync.WaitGroup.Wait", "sync.Cond.Wait", "chan receive (nil chan)", "chan send (nil chan)", "select (no cases)", "sleep", "IO wait":
		return true
	}
	return false
}

// settle waits until every goroutine that has a frame of pkg is blocked and two consecutive
// snapshots (and the progress counter) agree. Returns the relevant goroutines, or nil on timeout.
func settle(pkg string, progress func() int64, timeout time.Duration) []gor {
	deadline := time.Now().Add(timeout)
	var prev string
	var prevP int64 = -1
	stable := 0
	for time.Now().Before(deadline) {
		runtime.Gosched()
		time.Sleep(300 * time.Microsecond)
		all := snapshot()
		rel := []gor{}
		ok := true
		sb := strings.Builder{}
		for _, g := range all {
			if !g.mentions(pkg) {
				continue
			}
			rel = append(rel, g)
			if !blockedState(g.state) {
				ok = false
			}
			sb.WriteString(g.state)
			sb.WriteString("|")
			sb.WriteString(strings.Join(g.frames, ";"))
			sb.WriteString("\n")
		}
		p := progress()
		if ok && sb.String() == prev && p == prevP {
			stable++
			if stable >= 2 {
				return rel
			}
		} else {
			stable = 0
		}
		prev, prevP = sb.String(), p
	}
	return nil
}

// ---- child-process isolation: one case per process, crashes become observations ----

var crashNorm = regexp.MustCompile(`0x[0-9a-f]+|goroutine \d+`)

// runIsolated executes every case of the script in its own child process
// (`tvharness execcase <component>`), so that a panic in a library goroutine is observed as
// `crash:<first line of stderr>` on the op lines that got no answer.
func runIsolated(component string, x *execCtx, perCaseTimeout time.Duration) {
	var cases [][]string
	for x.in.Scan() {
		line := x.in.Text()
		if strings.HasPrefix(line, "case ") {
			cases = append(cases, nil)
		}
		if line != "" && len(cases) > 0 {
			cases[len(cases)-1] = append(cases[len(cases)-1], line)
		}
	}
	results := make([]string, len(cases))
	par := runtime.NumCPU() / 2
	if v := os.Getenv("TV_PAR"); v != "" {
		fmt.Sscanf(v, "%d", &par)
	}
	if par < 1 {
		par = 1
	}
	sem := make(chan struct{}, par)
	done := make(chan int, len(cases))
	for i := range cases {
		sem <- struct{}{}
		go func(i int) {
			results[i] = runOneIsolated(component, cases[i], perCaseTimeout)
			<-sem
			done <- i
		}(i)
	}
	for range cases {
		<-done
	}
	for _, r := range results {
		fmt.Fprint(x.w, r)
	}
}

func runOneIsolated(component string, cur []string, perCaseTimeout time.Duration) string {
	var w strings.Builder
	cmd := exec.Command(os.Args[0], "execcase", component)
	cmd.Stdin = strings.NewReader(strings.Join(cur, "\n") + "\n")
	var so, se strings.Builder
	cmd.Stdout, cmd.Stderr = &so, &se
	cmd.Env = os.Environ()
	done := make(chan error, 1)
	if err := cmd.Start(); err != nil {
		return fmt.Sprintf("%s\n", cur[0])
	}
	go func() { done <- cmd.Wait() }()
	var err error
	timedOut := false
	select {
	case err = <-done:
	case <-time.After(perCaseTimeout):
		_ = cmd.Process.Kill()
		err = <-done
		timedOut = true
	}
	lines := strings.Split(strings.TrimRight(so.String(), "\n"), "\n")
	answered := 0
	for _, l := range lines {
		if l == "" {
			continue
		}
		fmt.Fprintln(&w, l)
		if strings.Contains(l, " => ") {
			answered++
		}
	}
	if err != nil || timedOut {
		reason := "crash:exit"
		if timedOut {
			reason = "hang:watchdog"
		} else {
			for _, l := range strings.Split(se.String(), "\n") {
				if strings.HasPrefix(l, "panic:") || strings.HasPrefix(l, "fatal error:") {
					reason = "crash:" + strings.ReplaceAll(crashNorm.ReplaceAllString(l, "X"), " ", "_")
					break
				}
			}
			// which library function was on the crashing goroutine's stack
			for _, l := range strings.Split(se.String(), "\n") {
				if strings.Contains(l, "toolchest/") && strings.Contains(l, "(") && !strings.HasPrefix(l, "\t") {
					fn := l[strings.LastIndex(l, "/")+1:]
					if i := strings.LastIndex(fn, "("); i > 0 {
						fn = fn[:i]
					}
					reason += "@" + fn
					break
				}
			}
		}
		ops := 0
		for _, l := range cur {
			if strings.HasPrefix(l, "case ") {
				continue
			}
			if ops >= answered {
				fmt.Fprintf(&w, "%s => %s\n", l, reason)
			}
			ops++
		}
	}
	return w.String()
}
