// tvharness: generators and in-process execution of the real rbell/toolchest code.
//
//	tvharness gen  <component> -seed N -tier quick|thorough   > script
//	tvharness exec <component>                                < script > trace
//
// A script is a list of cases ("case <k> <cfg...>" followed by op lines); a trace is the
// same with " => <canonicalised observation>" appended to every op line (plus hints the
// model validates).  The Lean driver (tvdriver) consumes traces.
package main

import (
	"bufio"
	"flag"
	"fmt"
	"os"
	"sort"
	"strconv"
	"strings"
)

type component struct {
	gen  func(g *genCtx)
	exec func(x *execCtx)
}

var components = map[string]*component{}

// flagExtra: trailing key=value arguments (e.g. profile=C03)
var flagExtra []string

type genCtx struct {
	seed   uint64
	tier   string
	w      *bufio.Writer
	caseNo int
	rng    *rng
	scale  float64
}

func (g *genCtx) quick() bool { return g.tier != "thorough" }

// newCase starts a case; every case gets its own PRNG stream derived from (seed, caseNo).
func (g *genCtx) newCase(cfg string) {
	g.caseNo++
	g.rng = newRng(g.seed*0x9E3779B97F4A7C15 + uint64(g.caseNo))
	fmt.Fprintf(g.w, "case %d %s\n", g.caseNo, cfg)
}
func (g *genCtx) op(format string, a ...any) {
	fmt.Fprintf(g.w, format, a...)
	g.w.WriteByte('\n')
}

type execCtx struct {
	in  *bufio.Scanner
	w   *bufio.Writer
	cur string // current case header
}

// outBytes: an implementation that has gone wrong can produce observations of many megabytes (a value that grows with
// every call); the trace stays bounded: such an observation is replaced by its size, which no model answer equals.
var outBytes, tooLarge int

func (x *execCtx) out(op, obs string) {
	if len(obs) > 256<<10 {
		obs = fmt.Sprintf("toolarge:len=%d", len(obs))
		tooLarge++
	}
	outBytes += len(op) + len(obs) + 5
	fmt.Fprintf(x.w, "%s => %s\n", op, obs)
	if tooLarge >= 20 || outBytes > 512<<20 {
		// enough evidence; what follows would only be slower and larger
		x.w.Flush()
		os.Exit(0)
	}
}

func main() {
	if len(os.Args) < 3 {
		fmt.Fprintln(os.Stderr, "usage: tvharness gen|exec <component> [flags]")
		os.Exit(2)
	}
	mode, comp := os.Args[1], os.Args[2]
	if mode == "execcase" {
		mode, comp = "exec", comp+"!case"
	}
	c, ok := components[comp]
	if !ok {
		names := []string{}
		for k := range components {
			names = append(names, k)
		}
		sort.Strings(names)
		fmt.Fprintf(os.Stderr, "unknown component %q (have %v)\n", comp, names)
		os.Exit(2)
	}
	fs := flag.NewFlagSet(mode, flag.ExitOnError)
	seed := fs.Uint64("seed", 1, "VERIF_SEED")
	tier := fs.String("tier", "quick", "quick|thorough")
	scale := fs.Float64("scale", 1.0, "multiplier on case counts")
	_ = fs.Parse(os.Args[3:])
	flagExtra = fs.Args()
	w := bufio.NewWriterSize(os.Stdout, 1<<20)
	defer w.Flush()
	switch mode {
	case "gen":
		c.gen(&genCtx{seed: *seed, tier: *tier, w: w, scale: *scale})
	case "exec":
		sc := bufio.NewScanner(os.Stdin)
		sc.Buffer(make([]byte, 1<<20), 1<<26)
		c.exec(&execCtx{in: sc, w: w})
	default:
		fmt.Fprintln(os.Stderr, "mode must be gen or exec")
		os.Exit(2)
	}
}

// ---- PRNG (splitmix64) ----

type rng struct{ s uint64 }

func newRng(seed uint64) *rng { return &rng{s: seed} }
func (r *rng) next() uint64 {
	r.s += 0x9E3779B97F4A7C15
	z := r.s
	z = (z ^ (z >> 30)) * 0xBF58476D1CE4E5B9
	z = (z ^ (z >> 27)) * 0x94D049BB133111EB
	return z ^ (z >> 31)
}
func (r *rng) intn(n int) int {
	if n <= 0 {
		return 0
	}
	return int(r.next() % uint64(n))
}
func (r *rng) rangeIn(lo, hi int) int { return lo + r.intn(hi-lo+1) } // inclusive
func (r *rng) chance(num, den int) bool { return r.intn(den) < num }

// ---- encoding ----

func encList(xs []int) string {
	if len(xs) == 0 {
		return "-"
	}
	sb := strings.Builder{}
	for i, x := range xs {
		if i > 0 {
			sb.WriteByte(',')
		}
		sb.WriteString(strconv.Itoa(x))
	}
	return sb.String()
}
func decList(s string) []int {
	if s == "-" || s == "" {
		return []int{}
	}
	parts := strings.Split(s, ",")
	out := make([]int, 0, len(parts))
	for _, p := range parts {
		v, err := strconv.Atoi(p)
		if err != nil {
			panic("bad list element " + p)
		}
		out = append(out, v)
	}
	return out
}
func encLists(xss [][]int) string {
	if len(xss) == 0 {
		return "none"
	}
	parts := make([]string, len(xss))
	for i, xs := range xss {
		parts[i] = encList(xs)
	}
	return strings.Join(parts, ";")
}
func decLists(s string) [][]int {
	if s == "none" {
		return [][]int{}
	}
	parts := strings.Split(s, ";")
	out := make([][]int, len(parts))
	for i, p := range parts {
		out[i] = decList(p)
	}
	return out
}

// fields parses "k=v k=v ..." after the op name.
func fields(toks []string) map[string]string {
	m := map[string]string{}
	for _, t := range toks {
		if i := strings.IndexByte(t, '='); i > 0 {
			m[t[:i]] = t[i+1:]
		}
	}
	return m
}
func atoi(s string) int {
	v, err := strconv.Atoi(s)
	if err != nil {
		panic("bad int " + s)
	}
	return v
}

// protect runs f and maps a panic to an observation string.
func protect(f func() string) (obs string) {
	defer func() {
		if r := recover(); r != nil {
			obs = "panic"
		}
	}()
	return f()
}
