package main

import (
	"fmt"
	"os"
)

func dumpGors(gs []gor) {
	if os.Getenv("TV_DEBUG") == "" {
		return
	}
	for _, g := range gs {
		fmt.Fprintf(os.Stderr, "GOR [%s] %v\n", g.state, g.frames)
	}
}
