package main

import (
	"runtime"
	"math"
	"fmt"
	"io"
	"os"
	"sort"
	"strconv"
	"strings"
	"sync"
	"sync/atomic"
	"time"

	"github.com/google/uuid"
	"github.com/rbell/toolchest/workqueue"
)

func init() {
	components["wq"] = &component{gen: genWQ, exec: func(x *execCtx) { runIsolated("wq", x, 60*time.Second) }}
	components["wq!case"] = &component{exec: execWQCase}
}

// ---- gated scripts (DESIGN §3.5): one external stimulus at a time, observed at quiescence ----

func genWQ(g *genCtx) {
	profile := "C04"
	for _, a := range flagExtra {
		if strings.HasPrefix(a, "profile=") {
			profile = a[len("profile="):]
		}
	}
	nCases := int(150 * g.scale)
	maxOps := 26
	maxW, maxL := 3, 4
	if !g.quick() {
		nCases = int(2500 * g.scale)
		maxOps = 40
		maxW, maxL = 4, 5
	}
	if profile == "C19" {
		rounds := 150
		if !g.quick() {
			rounds = int(3000 * g.scale)
		}
		for _, kind := range []string{"stop", "brk", "mixed"} {
			g.newCase("profile=C19 kind=stopstorm")
			g.op("stopstorm rounds=%d n=8 kind=%s", rounds, kind)
		}
	}
	for t := 0; t < nCases; t++ {
		g.newCase("profile=" + profile)
		r := g.rng
		if (profile == "C05" || profile == "C16") && t%4 == 1 {
			genAdjustStorm(g, r, profile)
			continue
		}
		if profile == "C19" && t%5 == 2 {
			genStopBreakStorm(g, r)
			continue
		}
		if profile == "C14" && t%6 == 4 {
			genManySubs(g, r)
			continue
		}
		if (profile == "C05" || profile == "C16") && t%4 == 3 {
			if t%8 == 3 {
				genDeqStorm(g, r)
			} else {
				genSetPrioStorm(g, r)
			}
			continue
		}
		W, L := r.rangeIn(1, maxW), r.rangeIn(1, maxL)
		if t%3 == 2 {
			// the options in the other order: the configuration must not depend on it
			g.op("new W=%d L=%d order=LW", W, L)
		} else {
			g.op("new W=%d L=%d", W, L)
		}
		if profile == "C09" && t%2 == 0 {
			// another Queue in the same process, with another length: the queues do not share anything
			g.op("otherq L=%d", []int{1, 2, 7, 40}[r.intn(4)])
		}
		n := 0     // enqueues issued
		subs := 0  // subscribers
		stopped := false
		nOps := r.rangeIn(4, maxOps)
		prioRange := []int{1, 3, 6}[r.intn(3)] // 1 => all equal (FIFO among equals)
		if profile == "C14" || (profile == "C04" && r.chance(1, 3)) {
			for i, k := 0, r.intn(3); i < k; i++ {
				g.op("sub")
				subs++
			}
		}
		fill := r.chance(1, 2) // start by filling workers + queue (reaches the full-queue branch)
		for i := 0; i < nOps; i++ {
			x := r.intn(100)
			if fill && i < W+L+2 {
				x = 0
			}
			errP := 0
			if profile == "C14" || profile == "C19" || r.chance(1, 4) {
				errP = 40
			}
			switch {
			case x < 38:
				adj := 0
				if (profile == "C05" || profile == "C16") && r.chance(1, 3) || r.chance(1, 10) {
					adj = 1
				}
				pr := r.intn(prioRange) + 1
				if t%7 == 3 {
					// priorities are ints: the whole range, including values whose difference overflows
					pr = []int{math.MinInt, math.MinInt + 1, -5, -1, 0, 1, 2, math.MaxInt - 1, math.MaxInt}[r.intn(9)]
				}
				if adj == 1 && n%3 == 0 {
					// an adjust function whose value differs from the Enqueue priority from the start
					g.op("enq prio=%d name=%d adj=%d av=%d", pr, n, adj, (pr+n)%(prioRange+2))
				} else {
					g.op("enq prio=%d name=%d adj=%d", pr, n, adj)
				}
				n++
			case x < 68:
				e := 0
				if r.intn(100) < errP {
					e = 1
				}
				g.op("rel pick=%d err=%d", r.intn(8), e)
			case x < 74 && n > 0:
				g.op("setadj id=%d v=%d", r.intn(n), r.intn(prioRange+2))
			case x < 78:
				g.op("sub")
				subs++
			case x < 86 && subs > 0:
				g.op("recverr sub=%d", r.intn(subs))
			case x < 89:
				g.op("resize L=%d", r.rangeIn(1, maxL+1))
				if profile == "C09" && r.chance(1, 2) {
					g.op("otherq resize=%d", []int{1, 3, 50}[r.intn(3)])
				}
			case x < 93 && n > 0 && (profile == "C16" || profile == "C09" || r.chance(1, 3)):
				id := r.intn(n + 1) // n = an id the queue has never seen
				g.op("deq id=%d", id)
			case x < 97 && n > 0 && (profile == "C16" || r.chance(1, 3)):
				g.op("setprio id=%d p=%d", r.intn(n+1), r.intn(prioRange+2))
			case x < 100 && profile == "C19" && !stopped:
				if r.chance(1, 2) {
					g.op("stop")
				} else {
					g.op("brk")
				}
				stopped = true
			case x < 100 && profile == "C19" && stopped && r.chance(1, 2):
				// Stop and Break may be called at any time — also after one another
				if r.chance(2, 3) {
					g.op("brk")
				} else {
					g.op("stop")
				}
			default:
				g.op("obs")
			}
		}
		if profile == "C19" && !stopped {
			if r.chance(1, 2) {
				g.op("stop")
			} else {
				g.op("brk")
			}
		}
		if profile == "C09" && !stopped && t%9 == 0 {
			// the shutdown edge of the worker bound: Stop / Break with workers busy, the queue full and producers blocked
			// (chosen without the case's PRNG: the scripts up to here are what they were)
			g.op([]string{"stop", "brk"}[(t/9)%2])
		}
		// drain: release everything that can still run, receiving errors so that nobody stays blocked
		for i := 0; i < n+2; i++ {
			g.op("rel pick=0 err=%d", b2i(r.chance(1, 5) && subs > 0))
			for s := 0; s < subs; s++ {
				g.op("recverr sub=%d", s)
			}
		}
		g.op("final")
	}
}

// genManySubs: 9-20 error subscribers registered before the first error (more than any small buffer a fan-out might keep),
// then two failing work items; every subscriber receives each error once.
func genManySubs(g *genCtx, r *rng) {
	g.op("new W=1 L=4")
	N := r.rangeIn(9, 20)
	for i := 0; i < N; i++ {
		g.op("sub")
	}
	g.op("enq prio=1 name=0 adj=0")
	g.op("enq prio=1 name=1 adj=0")
	for it := 0; it < 2; it++ {
		g.op("rel pick=0 err=1")
		for i := 0; i < N; i++ {
			g.op("recverr sub=%d", i)
		}
	}
	g.op("rel pick=0 err=0")
	g.op("final")
}

// genStopBreakStorm: busy workers and a backlog; Stop, then (with the dispatcher handing the backlog over) Break, or the
// other way round, or either of them twice; then everything is released.  After Stop the backlog runs; a later Break skips
// what has not been handed over yet.
func genStopBreakStorm(g *genCtx, r *rng) {
	W := r.rangeIn(1, 2)
	L := r.rangeIn(3, 6)
	g.op("new W=%d L=%d", W, L)
	n := 0
	for i := 0; i < 2*W+r.rangeIn(2, L); i++ {
		g.op("enq prio=%d name=%d adj=0", r.rangeIn(1, 3), n)
		n++
	}
	seqs := [][]string{{"stop", "brk"}, {"stop", "rel pick=0 err=0", "brk"}, {"brk", "stop"}, {"stop", "stop"}, {"brk", "brk"}, {"stop", "brk", "stop"},
		{"stop n=8"}, {"brk n=8"}, {"stop n=4", "brk n=4"}, {"stop n=16"}}
	for _, op := range seqs[r.intn(len(seqs))] {
		g.op("%s", op)
	}
	if r.chance(1, 2) {
		g.op("enq prio=1 name=%d adj=0", n) // submitted afterwards: never runs
		n++
	}
	for i := 0; i < n+2; i++ {
		g.op("rel pick=0 err=0")
	}
	g.op("final")
}

// genDeqStorm: one worker, 6-9 waiting items of varied priorities and no adjust functions (nothing rebuilds the heap);
// items are dequeued from the middle of the queue, and every dispatch that follows must still pick the best of what is left.
func genDeqStorm(g *genCtx, r *rng) {
	L := r.rangeIn(7, 10)
	g.op("new W=1 L=%d", L)
	n := 0
	g.op("enq prio=1 name=%d adj=0", n)
	n++
	g.op("enq prio=1 name=%d adj=0", n)
	n++
	waiting := []int{}
	if r.chance(1, 2) {
		// a heap whose left subtree is heavy and whose right subtree is light, laid out in arrival order: removing a leaf on
		// the left moves the last (light) leaf under a heavy parent — the one case in which the moved item has to travel up
		p1, p2 := 10+r.intn(3), 2+r.intn(2)
		for _, pr := range []int{1, p1, p2, p1 + 1 + r.intn(3), p1 + 1 + r.intn(3), p2 + 3 + r.intn(2), p2 + 1} {
			g.op("enq prio=%d name=%d adj=0", pr, n)
			waiting = append(waiting, n)
			n++
		}
		g.op("deq id=%d", waiting[3+r.intn(2)])
		for i := 0; i < n+2; i++ {
			g.op("rel pick=0 err=0")
		}
		g.op("final")
		return
	}
	for i, k := 0, r.rangeIn(6, L-1); i < k; i++ {
		g.op("enq prio=%d name=%d adj=0", r.rangeIn(1, 12), n)
		waiting = append(waiting, n)
		n++
	}
	for round := 0; round < 3 && len(waiting) > 2; round++ {
		k := 1 + r.intn(len(waiting)-2) // not the first, not the last
		g.op("deq id=%d", waiting[k])
		waiting = append(waiting[:k:k], waiting[k+1:]...)
		g.op("rel pick=0 err=0")
		g.op("rel pick=0 err=0")
	}
	for i := 0; i < n+2; i++ {
		g.op("rel pick=0 err=0")
	}
	g.op("final")
}

// genSetPrioStorm: one worker, several waiting items WITHOUT adjust functions (nothing re-orders the queue behind
// SetPriority's back); SetPriority moves items up and down — the head of the queue included — and every dispatch that
// follows must honour the new priorities.
func genSetPrioStorm(g *genCtx, r *rng) {
	L := r.rangeIn(3, 6)
	g.op("new W=1 L=%d", L)
	n := 0
	g.op("enq prio=1 name=%d adj=0", n) // runs
	n++
	g.op("enq prio=1 name=%d adj=0", n) // handed to the worker pool
	n++
	waiting := []int{}
	base := r.rangeIn(1, 3)
	for i := 0; i < L; i++ {
		g.op("enq prio=%d name=%d adj=0", base+r.intn(3), n)
		waiting = append(waiting, n)
		n++
	}
	for round := 0; round < r.rangeIn(2, 5); round++ {
		for i, k := 0, r.rangeIn(1, 3); i < k; i++ {
			// demote or promote; the first waiting items are the likely head of the queue
			id := waiting[r.intn(len(waiting))]
			if r.chance(1, 2) {
				id = waiting[r.intn(2)%len(waiting)]
			}
			g.op("setprio id=%d p=%d", id, r.rangeIn(0, 9))
		}
		g.op("rel pick=0 err=0")
		if len(waiting) > 1 {
			waiting = waiting[1:] // bookkeeping only roughly right: ids that have started make setprio answer an error, which is fine
		}
	}
	for i := 0; i < n+2; i++ {
		g.op("rel pick=0 err=0")
	}
	g.op("final")
}

// genAdjustStorm: one worker, a queue of 5-7 waiting items most of which carry adjust functions; several adjust values change
// at once (parents and children of the heap both moving), decisions are triggered by completions and by SetPriority/Dequeue,
// and (C16) Dequeue/SetPriority then target items whose heap slot has moved.
func genAdjustStorm(g *genCtx, r *rng, profile string) {
	L := r.rangeIn(5, 7)
	g.op("new W=1 L=%d", L)
	n := 0
	g.op("enq prio=1 name=%d adj=0", n) // runs
	n++
	g.op("enq prio=1 name=%d adj=0", n) // handed to the worker pool
	n++
	waiting := []int{}
	for i := 0; i < L; i++ {
		g.op("enq prio=%d name=%d adj=%d", r.rangeIn(1, 9), n, b2i(r.chance(3, 4)))
		waiting = append(waiting, n)
		n++
	}
	for round := 0; round < r.rangeIn(2, 4); round++ {
		// several adjust functions change for the same decision
		for i, k := 0, r.rangeIn(2, 4); i < k; i++ {
			g.op("setadj id=%d v=%d", waiting[r.intn(len(waiting))], r.rangeIn(0, 12))
		}
		switch {
		case (profile == "C16" && r.chance(2, 3)) || (profile == "C05" && r.chance(1, 3)):
			// SetPriority / Dequeue trigger the re-ordering and then act on (possibly moved) items
			g.op("setprio id=%d p=%d", waiting[r.intn(len(waiting))], r.rangeIn(0, 12))
			g.op("deq id=%d", waiting[r.intn(len(waiting))])
			if r.chance(1, 2) {
				g.op("deq id=%d", waiting[r.intn(len(waiting))])
			}
			if profile == "C05" || r.chance(1, 3) {
				// the calls above end in an AdjustPriorities of their own; values that change after it and before the
				// next completion must still be consulted for that decision
				for i, k := 0, r.rangeIn(1, 3); i < k; i++ {
					g.op("setadj id=%d v=%d", waiting[r.intn(len(waiting))], r.rangeIn(0, 12))
				}
				g.op("rel pick=0 err=0")
			}
		default:
			g.op("rel pick=0 err=0")
		}
		if r.chance(1, 2) {
			// arrives while the queue is full; its adjust function (if any) differs from its Enqueue priority from the start
			if r.chance(1, 2) {
				g.op("enq prio=%d name=%d adj=1 av=%d", r.rangeIn(1, 9), n, r.rangeIn(0, 12))
			} else {
				g.op("enq prio=%d name=%d adj=0", r.rangeIn(1, 9), n)
			}
			waiting = append(waiting, n)
			n++
		}
	}
	for i := 0; i < n+2; i++ {
		g.op("rel pick=0 err=0")
	}
	g.op("final")
}

type wqItem struct {
	ord     int
	gate    chan error
	err     error
	uuid    uuid.UUID
	hasUUID bool
}

type wqRun struct {
	mu       sync.Mutex
	q        *workqueue.Queue
	W        int
	items    []*wqItem
	started  []int // ordinals in start order
	running  []int // started and not yet released, in start order
	returned map[int]bool
	adjVals  map[int]*atomic.Int64
	other    *workqueue.Queue // a second, unrelated queue in the same process
	otherIDs map[int]bool     // its goroutines
	subs     []chan error
	errs     [][]int // per subscriber: item ordinals whose error was received (999 = unknown value)
	progress atomic.Int64
	lastMon  string
	lastDisp string
	lastProd int
}

func recvWait(lastMon string) time.Duration {
	if lastMon == "send" {
		return 20 * time.Millisecond
	}
	return 200 * time.Microsecond
}

func (r *wqRun) gateWork(it *wqItem) func() error {
	return func() error {
		r.mu.Lock()
		r.started = append(r.started, it.ord)
		r.running = append(r.running, it.ord)
		r.mu.Unlock()
		r.progress.Add(1)
		err := <-it.gate
		r.progress.Add(1)
		return err
	}
}

// observe waits for quiescence and renders the observation record.
func (r *wqRun) observe(extra string) string {
	gs := settle("toolchest/workqueue.", func() int64 { return r.progress.Load() }, 8*time.Second)
	if gs == nil {
		return extra + "noquiesce"
	}
	if len(r.otherIDs) > 0 {
		// the goroutines of the unrelated second queue are not part of the observation
		own := gs[:0:0]
		for _, g := range gs {
			if !r.otherIDs[g.id] {
				own = append(own, g)
			}
		}
		gs = own
	}
	dumpGors(gs)
	disp, mon := "gone", "gone"
	wfree, wrun, wsend, prod := 0, 0, 0, 0
	for _, g := range gs {
		top := g.topIn("toolchest/workqueue.")
		fn := top[strings.LastIndex(top, "workqueue.")+len("workqueue."):]
		switch {
		case fn == "(*Queue).doWork":
			switch {
			case g.mentions("gateWork"):
				wrun++
			case g.state == "chan receive":
				wfree++
			default:
				wsend++
			}
		case fn == "(*Queue).start":
			// "select" = waiting at the select that receives new work (idle); anything else = "wait"
			if g.state == "select" && selectMentions(g.whereOf("(*Queue).start"), "workChan") {
				disp = "select"
			} else {
				disp = "wait"
			}
		case strings.HasPrefix(fn, "(*Queue).start.func"):
			switch g.state {
			case "select":
				mon = "select"
			case "chan send":
				mon = "send"
			case "chan receive":
				mon = "select" // a monitor reduced to a single receive is still "waiting for an error"
			default:
				// helper goroutines (WaitGroup.Wait) are not part of the observation
			}
		case fn == "(*Queue).Enqueue":
			prod++
		}
	}
	r.mu.Lock()
	defer r.mu.Unlock()
	ret := []int{}
	for o := range r.returned {
		ret = append(ret, o)
	}
	sort.Ints(ret)
	// WorkItems(): name -> ordinal
	type wi struct {
		ord, prio int
		state     string
	}
	wis := []wi{}
	for _, qw := range r.q.WorkItems() {
		o, err := strconv.Atoi(strings.TrimPrefix(qw.Name(), "n"))
		if err != nil {
			o = 999
		}
		st := "Q"
		if qw.State() == "In Progress" {
			st = "P"
		} else if qw.State() != "Queued" {
			st = "U"
		}
		wis = append(wis, wi{o, qw.Priority(), st})
	}
	sort.Slice(wis, func(i, j int) bool { return wis[i].ord < wis[j].ord })
	ws := []string{}
	for _, w := range wis {
		ws = append(ws, fmt.Sprintf("%d:%d:%s", w.ord, w.prio, w.state))
	}
	items := "none"
	if len(ws) > 0 {
		items = strings.Join(ws, ";")
	}
	es := []string{}
	for _, e := range r.errs {
		es = append(es, encList(e))
	}
	errs := "none"
	if len(es) > 0 {
		errs = strings.Join(es, ";")
	}
	r.lastMon, r.lastDisp, r.lastProd = mon, disp, prod
	return fmt.Sprintf("%sstarted=%s returned=%s items=%s errs=%s disp=%s mon=%s wfree=%d wrun=%d wsend=%d prod=%d",
		extra, encList(r.started), encList(ret), items, errs, disp, mon, wfree, wrun, wsend, prod)
}

// uuidOf resolves an ordinal to the queue's id (through WorkItems() while Enqueue has not returned).
func (r *wqRun) uuidOf(ord int) (uuid.UUID, bool) {
	r.mu.Lock()
	defer r.mu.Unlock()
	if ord < len(r.items) && r.items[ord].hasUUID {
		return r.items[ord].uuid, true
	}
	for _, qw := range r.q.WorkItems() {
		if qw.Name() == fmt.Sprintf("n%d", ord) {
			if u, err := uuid.Parse(qw.Id()); err == nil {
				return u, true
			}
		}
	}
	return uuid.UUID{}, false
}

func execWQCase(x *execCtx) {
	// the library prints progress chatter to stdout: keep the protocol on the real stdout, silence the rest
	real := os.Stdout
	if devnull, err := os.OpenFile(os.DevNull, os.O_WRONLY, 0); err == nil {
		os.Stdout = devnull
	}
	out := func(op, obs string) {
		fmt.Fprintf(real, "%s => %s\n", op, obs)
	}
	var r *wqRun
	for x.in.Scan() {
		line := x.in.Text()
		if strings.HasPrefix(line, "case ") || line == "" {
			fmt.Fprintln(real, line)
			continue
		}
		toks := strings.Fields(line)
		f := fields(toks[1:])
		if toks[0] == "stopstorm" {
			out(line, stopStorm(atoi(f["rounds"]), atoi(f["n"]), f["kind"]))
			continue
		}
		if r == nil && toks[0] != "new" {
			out(line, "bad-op:no-queue")
			continue
		}
		switch toks[0] {
		case "new":
			r = &wqRun{W: atoi(f["W"]), returned: map[int]bool{}, adjVals: map[int]*atomic.Int64{}}
			if f["order"] == "LW" {
				r.q = workqueue.NewQueue(workqueue.WithQueueLength(atoi(f["L"])), workqueue.WithWorkers(r.W))
			} else {
				r.q = workqueue.NewQueue(workqueue.WithWorkers(r.W), workqueue.WithQueueLength(atoi(f["L"])))
			}
			out(line, r.observe(""))
		case "enq":
			it := &wqItem{ord: len(r.items), gate: make(chan error)}
			r.mu.Lock()
			r.items = append(r.items, it)
			r.mu.Unlock()
			opts := []any{}
			_ = opts
			name := fmt.Sprintf("n%d", it.ord)
			prio := atoi(f["prio"])
			go func() {
				var id uuid.UUID
				if f["adj"] == "1" {
					v := &atomic.Int64{}
					v.Store(int64(prio))
					if av, ok := f["av"]; ok {
						v.Store(int64(atoi(av)))
					}
					r.mu.Lock()
					r.adjVals[it.ord] = v
					r.mu.Unlock()
					id = r.q.Enqueue(r.gateWork(it), workqueue.WithPriority(prio), workqueue.WithName(name),
						workqueue.WithAdjustPriority(func() int { return int(v.Load()) }))
				} else {
					id = r.q.Enqueue(r.gateWork(it), workqueue.WithPriority(prio), workqueue.WithName(name))
				}
				r.mu.Lock()
				it.uuid, it.hasUUID = id, true
				r.returned[it.ord] = true
				r.mu.Unlock()
				r.progress.Add(1)
			}()
			// the adjust value must be registered before anybody consults it
			time.Sleep(200 * time.Microsecond)
			out(line, r.observe(""))
		case "rel":
			r.mu.Lock()
			var it *wqItem
			if len(r.running) > 0 {
				k := atoi(f["pick"]) % len(r.running)
				it = r.items[r.running[k]]
				r.running = append(r.running[:k:k], r.running[k+1:]...)
			}
			r.mu.Unlock()
			if it == nil {
				out(line, r.observe("id=none "))
				continue
			}
			if f["err"] == "1" {
				it.err = fmt.Errorf("e%d", it.ord)
			}
			it.gate <- it.err
			out(line, r.observe(fmt.Sprintf("id=%d ", it.ord)))
		case "setadj":
			r.mu.Lock()
			v := r.adjVals[atoi(f["id"])]
			r.mu.Unlock()
			if v != nil {
				v.Store(int64(atoi(f["v"])))
			}
			out(line, r.observe(""))
		case "sub":
			ch := r.q.Errors()
			r.mu.Lock()
			r.subs = append(r.subs, ch)
			r.errs = append(r.errs, []int{})
			r.mu.Unlock()
			out(line, r.observe(""))
		case "recverr":
			s := atoi(f["sub"])
			got := "none"
			if s < len(r.subs) {
				take := func(e error) {
					ord := 999
					r.mu.Lock()
					for _, it := range r.items {
						if it.err != nil && it.err == e { // the same error value, not an equal-looking one
							ord = it.ord
						}
					}
					r.errs[s] = append(r.errs[s], ord)
					r.mu.Unlock()
					got = strconv.Itoa(ord)
				}
				// at a quiescent point a pending delivery completes at once; nothing pending = nothing to wait for.  The
				// channel is polled before and after the guard timer: on a loaded machine the timer may already have fired
				// when the select looks, and the choice between two ready cases is random.
				select {
				case e := <-r.subs[s]:
					take(e)
				default:
					select {
					case e := <-r.subs[s]:
						take(e)
					case <-time.After(recvWait(r.lastMon)):
						select {
						case e := <-r.subs[s]:
							take(e)
						default:
						}
					}
				}
			}
			out(line, r.observe("got="+got+" "))
		case "resize":
			r.q.ResizeQueueLength(atoi(f["L"]))
			out(line, r.observe(""))
		case "deq", "setprio":
			// C16's side condition: Dequeue / SetPriority are called while the dispatcher is idle
			if r.lastDisp != "select" || r.lastProd != 0 {
				out(line, r.observe("ret=skipped "))
				continue
			}
			id, ok := r.uuidOf(atoi(f["id"]))
			if !ok {
				id = uuid.New() // an id the queue has never seen
			}
			var err error
			func() {
				defer func() {
					if rec := recover(); rec != nil {
						err = fmt.Errorf("panic")
						out(line, r.observe("ret=panic "))
					}
				}()
				if toks[0] == "deq" {
					err = r.q.Dequeue(id)
				} else {
					err = r.q.SetPriority(id, atoi(f["p"]))
				}
				ret := "nil"
				if err != nil {
					ret = "error"
				}
				out(line, r.observe("ret="+ret+" "))
			}()
		case "otherq":
			if _, ok := f["L"]; ok || r.other == nil {
				before := map[int]bool{}
				for _, g := range snapshot() {
					before[g.id] = true
				}
				if ok {
					r.other = workqueue.NewQueue(workqueue.WithWorkers(2), workqueue.WithQueueLength(atoi(f["L"])))
				} else {
					r.other = workqueue.NewQueue(workqueue.WithWorkers(2))
				}
				// let its goroutines start (dispatcher, monitor, workers), then remember which ones they are
				settle("toolchest/workqueue.", func() int64 { return r.progress.Load() }, 8*time.Second)
				time.Sleep(2 * time.Millisecond)
				if r.otherIDs == nil {
					r.otherIDs = map[int]bool{}
				}
				for _, g := range snapshot() {
					if !before[g.id] && g.mentions("toolchest/workqueue.") {
						r.otherIDs[g.id] = true
					}
				}
			}
			if v, ok := f["resize"]; ok {
				r.other.ResizeQueueLength(atoi(v))
			}
			out(line, r.observe(""))
		case "stop", "brk":
			// n=K: the call comes from K goroutines at once ("may be called at any time" — also at the same time)
			call := r.q.Stop
			if toks[0] == "brk" {
				call = r.q.Break
			}
			if k := atoiOr(f["n"], 1); k > 1 {
				var wg sync.WaitGroup
				start := make(chan struct{})
				for i := 0; i < k; i++ {
					wg.Add(1)
					go func() {
						defer wg.Done()
						<-start
						call()
					}()
				}
				close(start)
				wg.Wait()
			} else {
				call()
			}
			out(line, r.observe(""))
		case "obs", "final":
			out(line, r.observe(""))
		default:
			out(line, "bad-op")
		}
	}
	_ = io.EOF
}

// stopStorm: fresh queues with one item executing and two waiting; Stop / Break (or both kinds) are called from n goroutines
// released together by a spin barrier.  Every call must return, the executing item finishes, and after Stop the waiting items
// run exactly once (after a Break they may be skipped).  A panic in any caller kills the process and is observed as a crash.
func stopStorm(rounds, n int, kind string) string {
	hung, notrun, twice := 0, 0, 0
	for t := 0; t < rounds; t++ {
		q := workqueue.NewQueue(workqueue.WithWorkers(1), workqueue.WithQueueLength(4))
		gate := make(chan struct{})
		var ran [3]atomic.Int32
		for i := 0; i < 3; i++ {
			i := i
			q.Enqueue(func() error { ran[i].Add(1); <-gate; return nil })
		}
		deadline := time.Now().Add(2 * time.Second)
		for ran[0].Load() == 0 && time.Now().Before(deadline) {
			runtime.Gosched()
		}
		var ready, done atomic.Int32
		var goFlag atomic.Bool
		for g := 0; g < n; g++ {
			brk := kind == "brk" || (kind == "mixed" && g%2 == 1)
			go func() {
				ready.Add(1)
				for !goFlag.Load() {
				}
				if brk {
					q.Break()
				} else {
					q.Stop()
				}
				done.Add(1)
			}()
		}
		for int(ready.Load()) < n {
			runtime.Gosched()
		}
		goFlag.Store(true)
		deadline = time.Now().Add(5 * time.Second)
		for int(done.Load()) < n && time.Now().Before(deadline) {
			time.Sleep(50 * time.Microsecond)
		}
		if int(done.Load()) < n {
			hung++
		}
		close(gate)
		if kind == "stop" {
			deadline = time.Now().Add(5 * time.Second)
			for (ran[1].Load() == 0 || ran[2].Load() == 0) && time.Now().Before(deadline) {
				time.Sleep(100 * time.Microsecond)
			}
			if ran[1].Load() == 0 || ran[2].Load() == 0 {
				notrun++
			}
		}
		time.Sleep(200 * time.Microsecond)
		for i := range ran {
			if ran[i].Load() > 1 {
				twice++
			}
		}
	}
	return fmt.Sprintf("storm hung=%d notrun=%d twice=%d", hung, notrun, twice)
}

// ---- ungated stress under the race detector: many producers, real concurrency ----

func init() {
	components["wqstress"] = &component{gen: genWQStress, exec: func(x *execCtx) { runIsolated("wqstress", x, 120*time.Second) }}
	components["wqstress!case"] = &component{exec: execWQStressCase}
}

func genWQStress(g *genCtx) {
	rounds := int(16 * g.scale)
	if !g.quick() {
		rounds = int(200 * g.scale)
	}
	for t := 0; t < rounds; t++ {
		g.newCase("kind=stress")
		r := g.rng
		n := r.rangeIn(50, 1000)
		if !g.quick() && r.chance(1, 4) {
			n = r.rangeIn(1000, 10000)
		}
		g.op("stress W=%d L=%d P=%d N=%d errpct=%d subs=%d latesubs=%d seed=%d", r.rangeIn(1, 8), r.rangeIn(1, 16), []int{1, 2, 4, 16}[r.intn(4)], n,
			[]int{0, 10, 50}[r.intn(3)], r.intn(3), r.intn(3), r.intn(1<<30))
	}
}

func execWQStressCase(x *execCtx) {
	real := os.Stdout
	if devnull, err := os.OpenFile(os.DevNull, os.O_WRONLY, 0); err == nil {
		os.Stdout = devnull
	}
	for x.in.Scan() {
		line := x.in.Text()
		if strings.HasPrefix(line, "case ") || line == "" {
			fmt.Fprintln(real, line)
			continue
		}
		toks := strings.Fields(line)
		f := fields(toks[1:])
		if toks[0] != "stress" {
			fmt.Fprintf(real, "%s => bad-op\n", line)
			continue
		}
		fmt.Fprintf(real, "%s => %s\n", line, wqStress(atoi(f["W"]), atoi(f["L"]), atoi(f["P"]), atoi(f["N"]), atoi(f["errpct"]), atoi(f["subs"]), atoi(f["latesubs"]), uint64(atoi(f["seed"]))))
	}
}

func wqStress(W, L, P, N, errpct, nsubs, late int, seed uint64) string {
	q := workqueue.NewQueue(workqueue.WithWorkers(W), workqueue.WithQueueLength(L))
	var running, maxRunning, executed atomic.Int64
	counts := make([]atomic.Int32, N)
	errOf := make([]error, N)
	rg := newRng(seed)
	for i := range errOf {
		if rg.intn(100) < errpct {
			errOf[i] = fmt.Errorf("e%d", i)
		}
	}
	type subRec struct {
		mu  sync.Mutex
		got []error
	}
	var subsMu sync.Mutex
	subs := []*subRec{}
	addSub := func() {
		ch := q.Errors()
		sr := &subRec{}
		subsMu.Lock()
		subs = append(subs, sr)
		subsMu.Unlock()
		go func() {
			for e := range ch {
				sr.mu.Lock()
				sr.got = append(sr.got, e)
				sr.mu.Unlock()
			}
		}()
	}
	for i := 0; i < nsubs; i++ {
		addSub()
	}
	ids := make([]uuid.UUID, N)
	var idsMu sync.Mutex
	var wg sync.WaitGroup
	for p := 0; p < P; p++ {
		wg.Add(1)
		go func(p int) {
			defer wg.Done()
			r := newRng(seed + uint64(p)*104729)
			for i := p; i < N; i += P {
				i := i
				nap := time.Duration(0)
				if r.chance(1, 4) {
					nap = time.Duration(r.intn(50)) * time.Microsecond
				}
				prio := r.intn(5)
				id := q.Enqueue(func() error {
					cur := running.Add(1)
					for {
						m := maxRunning.Load()
						if cur <= m || maxRunning.CompareAndSwap(m, cur) {
							break
						}
					}
					if nap > 0 {
						time.Sleep(nap)
					}
					counts[i].Add(1)
					running.Add(-1)
					executed.Add(1)
					return errOf[i]
				}, workqueue.WithPriority(prio), workqueue.WithName(fmt.Sprintf("n%d", i)))
				idsMu.Lock()
				ids[i] = id
				idsMu.Unlock()
			}
		}(p)
	}
	for k := 0; k < late; k++ {
		time.Sleep(time.Duration(rg.intn(400)) * time.Microsecond)
		addSub() // Errors() while work is running
	}
	wg.Wait()
	deadline := time.Now().Add(60 * time.Second)
	for executed.Load() < int64(N) && time.Now().Before(deadline) {
		time.Sleep(time.Millisecond)
	}
	settle("toolchest/workqueue.", func() int64 { return executed.Load() }, 10*time.Second)
	lost, dup := 0, 0
	for i := range counts {
		c := int(counts[i].Load())
		if c == 0 {
			lost++
		}
		if c > 1 {
			dup += c - 1
		}
	}
	seen := map[uuid.UUID]bool{}
	dupids := 0
	for _, id := range ids {
		if seen[id] {
			dupids++
		}
		seen[id] = true
	}
	nerr := 0
	for _, e := range errOf {
		if e != nil {
			nerr++
		}
	}
	errmissing, errdup, foreign := 0, 0, 0
	subsMu.Lock()
	for k, sr := range subs {
		sr.mu.Lock()
		c := map[error]int{}
		for _, e := range sr.got {
			c[e]++
		}
		for e, n := range c {
			known := false
			for _, x := range errOf {
				if x == e && e != nil {
					known = true
				}
			}
			if !known {
				foreign += n
			}
			if n > 1 {
				errdup += n - 1
			}
		}
		if k < nsubs { // registered before any work was enqueued: must have every error
			for _, e := range errOf {
				if e != nil && c[e] == 0 {
					errmissing++
				}
			}
		}
		sr.mu.Unlock()
	}
	subsMu.Unlock()
	over := 0
	if int(maxRunning.Load()) > W {
		over = int(maxRunning.Load()) - W
	}
	return fmt.Sprintf("lost=%d dup=%d dupids=%d over=%d errmissing=%d errdup=%d foreign=%d left=%d %s",
		lost, dup, dupids, over, errmissing, errdup, foreign, len(q.WorkItems()), raceObs())
}
