package main

import (
	"context"
	"fmt"
	"math"
	"sort"
	"strings"
	"time"

	"github.com/rbell/toolchest/storage"
)

func init() { components["cache"] = &component{gen: genCache, exec: execCache} }

// ---- replica of the documented partition calculators (hint for the model, §3.3) ----

type cacheOpt struct {
	kind  string // "default" | "bal"
	nRoot float64
	min   int
}

func (o cacheOpt) String() string {
	if o.kind == "default" {
		return "default"
	}
	return fmt.Sprintf("bal:%g:%d", o.nRoot, o.min)
}
func parseOpt(s string) cacheOpt {
	if s == "default" || s == "" {
		return cacheOpt{kind: "default"}
	}
	var o cacheOpt
	o.kind = "bal"
	parts := strings.Split(s, ":")
	fmt.Sscanf(parts[1], "%g", &o.nRoot)
	o.min = atoi(parts[2])
	return o
}

// replica computes (n, pc) the way the documented formula does.
func (o cacheOpt) replica(capacity int) (int, int) {
	if o.kind == "default" {
		n := int(math.Floor(math.Sqrt(float64(capacity))))
		return n, int(math.Floor(float64(capacity) / float64(n)))
	}
	n := int(math.Floor(math.Pow(float64(capacity), 1/o.nRoot)))
	if n < o.min {
		n = o.min
	}
	return n, int(math.Floor(float64(capacity) / float64(n)))
}

func newCache(ctx context.Context, capacity int, o cacheOpt) *storage.FifoMapCache[int, int] {
	if o.kind == "default" {
		return storage.NewFifoMapCache[int, int](ctx, capacity, storage.WithSweepFrequency(time.Hour))
	}
	return storage.NewFifoMapCache[int, int](ctx, capacity, storage.WithBalancedPartitions(o.nRoot, o.min), storage.WithSweepFrequency(time.Hour))
}

// lo is the smallest capacity the option is specified for (minimumPartitions <= capacity).
func lo(o cacheOpt) int {
	if o.kind == "bal" && o.min > 1 {
		return o.min
	}
	return 1
}

// ---- generation ----

func genCache(g *genCtx) {
	profile := "C01"
	for _, a := range flagExtra {
		if strings.HasPrefix(a, "profile=") {
			profile = a[len("profile="):]
		}
	}
	nCases := int(1200 * g.scale)
	maxOps := 80
	if !g.quick() {
		nCases = int(30000 * g.scale)
		maxOps = 140
	}
	randOpt := func(r *rng, capacity int) cacheOpt {
		if r.chance(1, 2) {
			return cacheOpt{kind: "default"}
		}
		roots := []float64{1.5, 2, 3, 4}
		return cacheOpt{kind: "bal", nRoot: roots[r.intn(len(roots))], min: r.rangeIn(1, capacity)}
	}
	// capacity checks (C02): every capacity in range for the default option, sampled options
	if profile == "C02" || profile == "C01" {
		g.newCase("kind=capcheck")
		top := 2000
		if !g.quick() {
			top = 100000
		}
		if profile == "C01" {
			top = 200
		}
		for c := 1; c <= top; c++ {
			g.op("capcheck cap=%d opt=default", c)
			if c <= 300 || c%37 == 0 {
				o := randOpt(g.rng, c)
				g.op("capcheck cap=%d opt=%s", c, o)
			}
		}
	}
	for t := 0; t < nCases; t++ {
		g.newCase("pending")
		// the header is rewritten below once the configuration is chosen; we emit it now
		r := g.rng
		var capacity int
		if t < 30 {
			capacity = t + 1
		} else if r.chance(4, 5) {
			capacity = r.rangeIn(1, 30)
		} else {
			capacity = r.rangeIn(31, 60)
		}
		if !g.quick() && r.chance(1, 10) {
			capacity = r.rangeIn(61, 200)
		}
		o := randOpt(r, capacity)
		n, pc := o.replica(capacity)
		alpha := r.rangeIn(3, 12)
		if r.chance(1, 2) {
			alpha = capacity + r.rangeIn(1, 6) // a little more than fits: overflow by a few
		}
		if alpha > 40 {
			alpha = 40
		}
		g.op("new cap=%d opt=%s n=%d pc=%d alpha=%d", capacity, o, n, pc, alpha)
		nOps := r.rangeIn(1, maxOps)
		key := func() int { return r.intn(alpha + 1) }
		stream := r.intn(3) // 0 uniform, 1 biased to delete/re-set + updates, 2 fill-sequentially then churn
		next := 0
		did := 0
		for i := 0; i < nOps; i++ {
			x := r.intn(100)
			switch {
			case stream == 2 && i < capacity+3:
				g.op("set %d %d", next%(alpha+1), r.intn(9)+1)
				next++
			case x < 45:
				v := r.intn(10) // 0 = the zero value is a legal value
				g.op("set %d %d", key(), v)
			case x < 60 && (stream == 1 || x < 52):
				k := key()
				g.op("delete %d", k)
				if stream == 1 && r.chance(2, 3) {
					g.op("set %d %d", key(), r.intn(9)+1)
					g.op("set %d %d", k, r.intn(9)+1) // re-set after delete (F1)
				}
			case x < 66:
				g.op("get %d", key())
			case x < 70:
				g.op("contains %d", key())
			case x < 74:
				g.op("sweep")
			case x < 76:
				g.op("view")
			case x < 79 && profile != "C03":
				did++
				nc := r.rangeIn(lo(o), 40)
				if r.chance(1, 3) {
					// keep the partition count, change the partition size (F2)
					for c := capacity + 1; c < capacity+3*n+3; c++ {
						if n2, pc2 := o.replica(c); n2 == n && pc2 != pc {
							nc = c
							break
						}
					}
				}
				n2, pc2 := o.replica(nc)
				g.op("resize %d n=%d pc=%d", nc, n2, pc2)
				capacity, n, pc = nc, n2, pc2
			case x < 82 && (profile == "C13" || profile == "C01" || x < 80):
				g.op("clear")
			default:
				g.op("set %d %d", key(), r.intn(9)+1)
			}
		}
		if profile == "C13" && did == 0 {
			nc := r.rangeIn(lo(o), 40)
			n2, pc2 := o.replica(nc)
			g.op("resize %d n=%d pc=%d", nc, n2, pc2)
			for i, iN := 0, r.rangeIn(0, 20); i < iN; i++ {
				g.op("set %d %d", key(), r.intn(9)+1)
			}
		}
	}
}

// ---- execution on the real cache ----

func execCache(x *execCtx) {
	ctx, cancel := context.WithCancel(context.Background())
	defer cancel()
	var c *storage.FifoMapCache[int, int]
	var opt cacheOpt
	alpha := 0
	view := func() string {
		keys := c.Keys()
		vals := c.Values()
		pg := make([]int, alpha+1)
		ph := make([]int, alpha+1)
		for a := 0; a <= alpha; a++ {
			pg[a] = c.Get(a)
			ph[a] = b2i(c.Contains(a))
		}
		return fmt.Sprintf("keys=%s vals=%s len=%d cap=%d pg=%s ph=%s", encList(keys), encList(vals), c.Len(), c.Capacity(), encList(pg), encList(ph))
	}
	for x.in.Scan() {
		line := x.in.Text()
		if strings.HasPrefix(line, "case ") || line == "" {
			fmt.Fprintln(x.w, line)
			continue
		}
		toks := strings.Fields(line)
		f := fields(toks[1:])
		obs := protect(func() string {
			switch toks[0] {
			case "capcheck":
				o := parseOpt(f["opt"])
				capacity := atoi(f["cap"])
				n, _ := o.replica(capacity)
				cctx, ccancel := context.WithCancel(ctx)
				cc := newCache(cctx, capacity, o)
				defer ccancel()
				return fmt.Sprintf("n=%d cap=%d", n, cc.Capacity())
			case "new":
				opt = parseOpt(f["opt"])
				alpha = atoi(f["alpha"])
				c = newCache(ctx, atoi(f["cap"]), opt)
				return view()
			case "set":
				c.Set(atoi(toks[1]), atoi(toks[2]))
				got := c.Get(atoi(toks[1])) // "immediately after Set(k, v) Get(k) returns v"
				c.Sweep()
				return fmt.Sprintf("got=%d ", got) + view()
			case "delete":
				c.Delete(atoi(toks[1]))
				return view()
			case "get":
				return fmt.Sprintf("val=%d", c.Get(atoi(toks[1])))
			case "contains":
				return fmt.Sprintf("b=%d", b2i(c.Contains(atoi(toks[1]))))
			case "sweep":
				c.Sweep()
				return view()
			case "view":
				return view()
			case "clear":
				c.Clear()
				return view()
			case "resize":
				nc := atoi(toks[1])
				c.Resize(nc)
				c.Sweep()
				fctx, fcancel := context.WithCancel(ctx)
				fresh := newCache(fctx, nc, opt)
				fc := fresh.Capacity()
				fcancel()
				return fmt.Sprintf("freshcap=%d ", fc) + view()
			}
			return "bad-op"
		})
		x.out(line, obs)
	}
}

var _ = sort.Ints
