package main

import (
	"fmt"
	"sort"
	"strings"

	verrs "github.com/rbell/toolchest/errors"
)

func init() { components["ve"] = &component{gen: genVE, exec: execVE} }

// ---- tree text format ----
//   N1(ctx,msg,w)            NewValidationError(ctx, msg, w==1)
//   N2(errs|kids)            NewValidationErrors(errs, kids)
//   N3(errs|warns|kids)      NewValidationErrorsWithWarnings(errs, warns, kids)
//   map:  ~ (nil) | {} (empty) | k:m,m;k:m        ("_" is the empty string)
//   kids: ~ (nil) | {} (empty) | name=TREE&name=TREE

type vnode struct {
	kind          int
	ctx, msg      string
	w             bool
	errs, warns   map[string][]string // nil allowed
	errsK, warnsK []string            // key order as written
	kids          []vkid              // nil = nil map
	kidsNil       bool
}
type vkid struct {
	name string
	n    *vnode
}

func encStr(s string) string {
	if s == "" {
		return "_"
	}
	return s
}
func decStr(s string) string {
	if s == "_" {
		return ""
	}
	return s
}

func (n *vnode) String() string {
	encMap := func(m map[string][]string, order []string) string {
		if m == nil {
			return "~"
		}
		if len(m) == 0 {
			return "{}"
		}
		parts := []string{}
		for _, k := range order {
			ms := make([]string, len(m[k]))
			for i, x := range m[k] {
				ms[i] = encStr(x)
			}
			if len(ms) == 0 {
				parts = append(parts, encStr(k)+":!")
			} else {
				parts = append(parts, encStr(k)+":"+strings.Join(ms, ","))
			}
		}
		return strings.Join(parts, ";")
	}
	encKids := func() string {
		if n.kidsNil {
			return "~"
		}
		if len(n.kids) == 0 {
			return "{}"
		}
		parts := []string{}
		for _, k := range n.kids {
			parts = append(parts, k.name+"="+k.n.String())
		}
		return strings.Join(parts, "&")
	}
	switch n.kind {
	case 1:
		return fmt.Sprintf("N1(%s,%s,%d)", encStr(n.ctx), encStr(n.msg), b2i(n.w))
	case 2:
		return fmt.Sprintf("N2(%s|%s)", encMap(n.errs, n.errsK), encKids())
	default:
		return fmt.Sprintf("N3(%s|%s|%s)", encMap(n.errs, n.errsK), encMap(n.warns, n.warnsK), encKids())
	}
}

type vparser struct {
	s string
	i int
}

func (p *vparser) until(stop string) string {
	j := p.i
	for j < len(p.s) && !strings.ContainsRune(stop, rune(p.s[j])) {
		j++
	}
	r := p.s[p.i:j]
	p.i = j
	return r
}
func (p *vparser) expect(c byte) {
	if p.i >= len(p.s) || p.s[p.i] != c {
		panic(fmt.Sprintf("parse error at %d in %q: want %c", p.i, p.s, c))
	}
	p.i++
}
func (p *vparser) parseMap() (map[string][]string, []string) {
	txt := p.until("|)")
	if txt == "~" {
		return nil, nil
	}
	m := map[string][]string{}
	order := []string{}
	if txt == "{}" {
		return m, order
	}
	for _, ent := range strings.Split(txt, ";") {
		kv := strings.SplitN(ent, ":", 2)
		k := decStr(kv[0])
		ms := []string{}
		if kv[1] != "!" {
			for _, x := range strings.Split(kv[1], ",") {
				ms = append(ms, decStr(x))
			}
		}
		m[k] = ms
		order = append(order, k)
	}
	return m, order
}
func (p *vparser) parseKids() ([]vkid, bool) {
	if p.s[p.i] == '~' {
		p.i++
		return nil, true
	}
	if strings.HasPrefix(p.s[p.i:], "{}") {
		p.i += 2
		return []vkid{}, false
	}
	kids := []vkid{}
	for {
		name := p.until("=")
		p.expect('=')
		kids = append(kids, vkid{name, p.parseNode()})
		if p.i < len(p.s) && p.s[p.i] == '&' {
			p.i++
			continue
		}
		return kids, false
	}
}
func (p *vparser) parseNode() *vnode {
	n := &vnode{}
	p.expect('N')
	n.kind = int(p.s[p.i] - '0')
	p.i++
	p.expect('(')
	switch n.kind {
	case 1:
		n.ctx = decStr(p.until(","))
		p.expect(',')
		n.msg = decStr(p.until(","))
		p.expect(',')
		n.w = p.until(")") == "1"
		n.kidsNil = true
	case 2:
		n.errs, n.errsK = p.parseMap()
		p.expect('|')
		n.kids, n.kidsNil = p.parseKids()
	default:
		n.errs, n.errsK = p.parseMap()
		p.expect('|')
		n.warns, n.warnsK = p.parseMap()
		p.expect('|')
		n.kids, n.kidsNil = p.parseKids()
	}
	p.expect(')')
	return n
}

func cloneMap(m map[string][]string) map[string][]string {
	if m == nil {
		return nil
	}
	r := map[string][]string{}
	for k, v := range m {
		r[k] = append([]string{}, v...)
	}
	return r
}

func (n *vnode) build() *verrs.ValidationError {
	var kids map[string]*verrs.ValidationError
	if !n.kidsNil {
		kids = map[string]*verrs.ValidationError{}
		for _, k := range n.kids {
			kids[k.name] = k.n.build()
		}
	}
	switch n.kind {
	case 1:
		return verrs.NewValidationError(n.ctx, n.msg, n.w)
	case 2:
		return verrs.NewValidationErrors(cloneMap(n.errs), kids)
	default:
		return verrs.NewValidationErrorsWithWarnings(cloneMap(n.errs), cloneMap(n.warns), kids)
	}
}

// ---- canonical output ----

func canonMap(m map[string][]string) string {
	if len(m) == 0 {
		return "{}"
	}
	keys := make([]string, 0, len(m))
	for k := range m {
		keys = append(keys, k)
	}
	sort.Strings(keys)
	parts := []string{}
	for _, k := range keys {
		ms := append([]string{}, m[k]...)
		sort.Strings(ms)
		for i := range ms {
			ms[i] = encStr(ms[i])
		}
		if len(ms) == 0 {
			parts = append(parts, encStr(k)+":!")
		} else {
			parts = append(parts, encStr(k)+":"+strings.Join(ms, ","))
		}
	}
	return strings.Join(parts, ";")
}
func canonLines(s string) string {
	if s == "" {
		return "{}"
	}
	lines := strings.Split(strings.TrimSuffix(s, "\n"), "\n")
	sort.Strings(lines)
	for i := range lines {
		lines[i] = strings.ReplaceAll(lines[i], " ", "")
	}
	return strings.Join(lines, "/")
}

// ---- errors used as AddErrorToValidation arguments ----

type valueErr struct{ m string } // a non-pointer error type

func (v valueErr) Error() string { return v.m }

type ptrErr struct{ m string }

func (p *ptrErr) Error() string { return p.m }

func parseErr(s string) error {
	switch {
	case s == "nil":
		return nil
	case s == "NP":
		var p *verrs.ValidationError
		return p
	case strings.HasPrefix(s, "P("):
		return &ptrErr{decStr(s[2 : len(s)-1])}
	case strings.HasPrefix(s, "S("):
		return valueErr{decStr(s[2 : len(s)-1])}
	case strings.HasPrefix(s, "W("):
		p := &vparser{s: s[2 : len(s)-1]}
		return fmt.Errorf("wrapped: %w", p.parseNode().build())
	default:
		p := &vparser{s: s}
		return p.parseNode().build()
	}
}

// ---- generation ----

func genVE(g *genCtx) {
	nTrees := int(1500 * g.scale)
	nPairs := int(800 * g.scale)
	maxDepth := 3
	if !g.quick() {
		nTrees = int(60000 * g.scale)
		nPairs = int(30000 * g.scale)
		maxDepth = 5
	}
	fieldsA := []string{"a", "b", "a.b", "b.c", "c", ""} // dotted names make flat keys collide across routes
	kidsA := []string{"a", "b", "a.b", "k"}
	msgsA := []string{"x", "y", "z", "bad"}
	var genMap func(r *rng, allowNil bool) (map[string][]string, []string)
	genMap = func(r *rng, allowNil bool) (map[string][]string, []string) {
		if allowNil && r.chance(1, 4) {
			return nil, nil
		}
		m := map[string][]string{}
		order := []string{}
		for i, iN := 0, r.intn(4); i < iN; i++ {
			k := fieldsA[r.intn(len(fieldsA))]
			if _, ok := m[k]; ok {
				continue
			}
			ms := []string{}
			for j, jN := 0, r.intn(3); j < jN; j++ {
				ms = append(ms, msgsA[r.intn(len(msgsA))])
			}
			m[k] = ms
			order = append(order, k)
		}
		return m, order
	}
	var genNode func(r *rng, depth int) *vnode
	genNode = func(r *rng, depth int) *vnode {
		n := &vnode{}
		k := r.intn(10)
		switch {
		case k < 2 || depth == 0 && k < 5:
			n.kind = 1
			n.ctx = fieldsA[r.intn(len(fieldsA))]
			n.msg = msgsA[r.intn(len(msgsA))]
			n.w = r.chance(1, 2)
			n.kidsNil = true
			return n
		case k < 6:
			n.kind = 2
			n.errs, n.errsK = genMap(r, true)
		default:
			n.kind = 3
			n.errs, n.errsK = genMap(r, true)
			n.warns, n.warnsK = genMap(r, true)
		}
		if depth == 0 || r.chance(1, 4) {
			n.kidsNil = r.chance(1, 2)
			if !n.kidsNil {
				n.kids = []vkid{}
			}
			return n
		}
		used := map[string]bool{}
		n.kids = []vkid{}
		for i, iN := 0, r.rangeIn(1, 3); i < iN; i++ {
			name := kidsA[r.intn(len(kidsA))]
			if used[name] {
				continue
			}
			used[name] = true
			n.kids = append(n.kids, vkid{name, genNode(r, depth-1)})
		}
		return n
	}
	// a deep chain (3-8 child names) that ends in a node with several message-carrying children: long key paths with
	// siblings below them
	deepTree := func(r *rng) *vnode {
		fan := &vnode{kind: 3}
		fan.errs, fan.errsK = genMap(r, true)
		fan.warns, fan.warnsK = genMap(r, true)
		fan.kids = []vkid{}
		used := map[string]bool{}
		for i, iN := 0, r.rangeIn(2, 4); i < iN; i++ {
			name := kidsA[r.intn(len(kidsA))]
			if used[name] {
				continue
			}
			used[name] = true
			leaf := genNode(r, 0)
			fan.kids = append(fan.kids, vkid{name, leaf})
		}
		cur := fan
		for d, dN := 0, r.rangeIn(3, 8); d < dN; d++ {
			parent := &vnode{kind: 2}
			parent.errs, parent.errsK = genMap(r, true)
			parent.kids = []vkid{{kidsA[r.intn(len(kidsA))], cur}}
			if r.chance(1, 3) {
				// a sibling next to the chain
				sib := kidsA[r.intn(len(kidsA))]
				if sib != parent.kids[0].name {
					parent.kids = append(parent.kids, vkid{sib, genNode(r, 1)})
				}
			}
			cur = parent
		}
		return cur
	}
	reads := []string{"flatE", "flatW", "error", "errMap", "warnMap", "kids"}
	for t := 0; t < nTrees; t++ {
		g.newCase("kind=reads")
		r := g.rng
		if t%5 == 4 {
			g.op("tree %s", deepTree(r))
		} else {
			g.op("tree %s", genNode(r, r.rangeIn(0, maxDepth)))
		}
		for i, iN := 0, r.rangeIn(1, 6); i < iN; i++ {
			g.op("read %s", reads[r.intn(len(reads))])
		}
	}
	genErr := func(r *rng) string {
		switch r.intn(9) {
		case 0:
			return "nil"
		case 1:
			return "NP"
		case 2:
			return "P(" + msgsA[r.intn(len(msgsA))] + ")"
		case 3:
			return "S(" + msgsA[r.intn(len(msgsA))] + ")"
		case 4:
			return "W(" + genNode(r, r.rangeIn(0, 2)).String() + ")"
		default:
			return genNode(r, r.rangeIn(0, 2)).String()
		}
	}
	// a tree that certainly has a child called "a" carrying messages (biased stream: child-name collisions)
	withKidA := func(r *rng) string {
		n := genNode(r, 1)
		for n.kind == 1 {
			n = genNode(r, 1)
		}
		kid := genNode(r, 1)
		for kid.kind != 1 {
			kid = genNode(r, 0)
		}
		n.kidsNil = false
		kids := []vkid{{"a", kid}}
		for _, k := range n.kids {
			if k.name != "a" {
				kids = append(kids, k)
			}
		}
		n.kids = kids
		return n.String()
	}
	for t := 0; t < nPairs; t++ {
		g.newCase("kind=add")
		r := g.rng
		if t%4 == 3 {
			g.op("add %s %s", withKidA(r), withKidA(r))
		} else {
			g.op("add %s %s", genErr(r), genErr(r))
		}
	}
	// fan-out: one error whose message list for a field grew one message at a time is merged into several others, each of
	// which then gets a message of its own for that field (appended: the cases above keep their PRNG streams)
	nFan := 40
	if !g.quick() {
		nFan = int(2000 * g.scale)
	}
	for t := 0; t < nFan; t++ {
		g.newCase("kind=fan")
		r := g.rng
		g.op("fan f=%s k=%d n=%d w=%d", encStr(fieldsA[r.intn(len(fieldsA))]), r.rangeIn(1, 9), r.rangeIn(2, 4), r.intn(2))
	}
}

// ---- execution ----

func execVE(x *execCtx) {
	var cur *verrs.ValidationError
	for x.in.Scan() {
		line := x.in.Text()
		if strings.HasPrefix(line, "case ") || line == "" {
			fmt.Fprintln(x.w, line)
			continue
		}
		toks := strings.Fields(line)
		obs := protect(func() string {
			switch toks[0] {
			case "tree":
				p := &vparser{s: toks[1]}
				cur = p.parseNode().build()
				return "ok"
			case "read":
				switch toks[1] {
				case "flatE":
					return canonMap(cur.GetFlatErrorMap())
				case "flatW":
					return canonMap(cur.GetFlatWarningMap())
				case "error":
					return canonLines(cur.Error())
				case "errMap":
					return canonMap(cur.GetErrorMap())
				case "warnMap":
					return canonMap(cur.GetWarningMap())
				case "kids":
					names := []string{}
					for k := range cur.GetChildErrors() {
						names = append(names, k)
					}
					sort.Strings(names)
					if len(names) == 0 {
						return "{}"
					}
					return strings.Join(names, ",")
				}
			case "fan":
				f := fields(toks[1:])
				fld, k, n, w := decStr(f["f"]), atoi(f["k"]), atoi(f["n"]), f["w"] == "1"
				common := verrs.NewValidationError(fld, "m0", w)
				for i := 1; i < k; i++ {
					common = verrs.AddErrorToValidation(common, verrs.NewValidationError(fld, fmt.Sprintf("m%d", i), w))
				}
				rs := make([]*verrs.ValidationError, n)
				for j := range rs {
					tf := "o"
					if j%2 == 1 {
						tf = fld // this one has a message for the field already
					}
					rs[j] = verrs.AddErrorToValidation(verrs.NewValidationError(tf, fmt.Sprintf("o%d", j), false), common)
				}
				for j := range rs {
					rs[j] = verrs.AddErrorToValidation(rs[j], verrs.NewValidationError(fld, fmt.Sprintf("own%d", j), w))
				}
				parts := []string{}
				for j, rj := range rs {
					parts = append(parts, fmt.Sprintf("r%dE=%s r%dW=%s", j, canonMap(rj.GetFlatErrorMap()), j, canonMap(rj.GetFlatWarningMap())))
				}
				parts = append(parts, fmt.Sprintf("cE=%s cW=%s", canonMap(common.GetFlatErrorMap()), canonMap(common.GetFlatWarningMap())))
				return strings.Join(parts, " ")
			case "add":
				e1, e2 := parseErr(toks[1]), parseErr(toks[2])
				res := verrs.AddErrorToValidation(e1, e2)
				if res == nil {
					return "nilresult"
				}
				return fmt.Sprintf("flatE=%s flatW=%s", canonMap(res.GetFlatErrorMap()), canonMap(res.GetFlatWarningMap()))
			}
			return "bad-op"
		})
		x.out(line, obs)
	}
}
