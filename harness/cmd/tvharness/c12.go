package main

import (
	"unsafe"
	"fmt"
	"strings"

	"github.com/rbell/toolchest/sliceOps"
)

func init() { components["sliceops"] = &component{gen: genSliceOps, exec: execSliceOps} }

const sentinel = 77777 // fills spare capacity so that writes outside the window are visible

// rgs enumerates all restricted-growth strings (equality patterns) of length n, values from 1.
func rgs(n int, f func([]int)) {
	a := make([]int, n)
	var rec func(i, max int)
	rec = func(i, max int) {
		if i == n {
			f(a)
			return
		}
		for v := 1; v <= max+1; v++ {
			a[i] = v
			m := max
			if v > max {
				m = v
			}
			rec(i+1, m)
		}
	}
	rec(0, 0)
}

// splits enumerates the ways of cutting xs into exactly k consecutive (possibly empty) slices.
func splits(xs []int, k int, f func([][]int)) {
	cur := make([][]int, 0, k)
	var rec func(start, left int)
	rec = func(start, left int) {
		if left == 1 {
			cur = append(cur, xs[start:])
			f(cur)
			cur = cur[:len(cur)-1]
			return
		}
		for end := start; end <= len(xs); end++ {
			cur = append(cur, xs[start:end])
			rec(end, left-1)
			cur = cur[:len(cur)-1]
		}
	}
	if k == 0 {
		if len(xs) == 0 {
			f(cur)
		}
		return
	}
	rec(0, k)
}

func genSliceOps(g *genCtx) {
	maxLen := 5
	nRandom := int(4000 * g.scale)
	if !g.quick() {
		maxLen = 7
		nRandom = int(300000 * g.scale)
	}
	// ---- exhaustive stratum: every equality pattern up to maxLen ----
	g.newCase("stratum=exhaustive maxlen=" + fmt.Sprint(maxLen))
	for n := 0; n <= maxLen; n++ {
		rgs(n, func(a []int) {
			// zero value participates in patterns too: variant where symbol 1 is the zero value
			for variant := 0; variant < 2; variant++ {
				xs := make([]int, n)
				for i, v := range a {
					xs[i] = v - variant
				}
				if variant == 1 && n == 0 {
					continue
				}
				genInPlaceAll(g, xs)
				g.op("distinct s=%s", encList(xs))
				for k := 0; k <= 3; k++ {
					splits(xs, k, func(parts [][]int) {
						g.op("union ss=%s", encLists(parts))
						g.op("intersection ss=%s", encLists(parts))
						g.op("disjoin ss=%s", encLists(parts))
						if k == 2 {
							g.op("difference ss=%s", encLists(parts))
						}
					})
				}
			}
		})
	}
	// ---- random longer inputs, small alphabet so that duplicates are the norm ----
	g.newCase("stratum=random")
	for t := 0; t < nRandom; t++ {
		r := g.rng
		alpha := r.rangeIn(1, 6)
		mk := func(maxn int) []int {
			n := r.intn(maxn + 1)
			xs := make([]int, n)
			for i := range xs {
				xs[i] = r.intn(alpha + 1) // includes 0 = the zero value
			}
			return xs
		}
		switch r.intn(10) {
		case 0:
			xs := mk(40)
			extra := r.intn(4)
			ln := len(xs)
			i := r.intn(ln + 1)
			j := r.rangeIn(i, ln)
			arr := append(append([]int{}, xs...), sent(extra)...)
			g.op("remove A=%s n=%d i=%d j=%d", encList(arr), ln, i, j)
		case 1:
			xs := mk(40)
			extra := r.intn(4)
			ln := len(xs)
			i := r.intn(ln + 1)
			j := r.rangeIn(i, ln)
			arr := append(append([]int{}, xs...), sent(extra)...)
			g.op("cut A=%s n=%d i=%d j=%d", encList(arr), ln, i, j)
		case 2:
			xs := mk(30)
			g.op("insert s=%s cap=%d i=%d v=%s", encList(xs), r.intn(6), r.intn(len(xs)+1), encList(mk(6)))
		case 3:
			xs := mk(40)
			extra := r.intn(4)
			arr := append(append([]int{}, xs...), sent(extra)...)
			keep := []int{}
			for v := 0; v <= alpha; v++ {
				if r.chance(1, 2) {
					keep = append(keep, v)
				}
			}
			g.op("filter A=%s n=%d keep=%s", encList(arr), len(xs), encList(keep))
		case 4:
			g.op("push s=%s v=%s", encList(mk(20)), encList(mk(6)))
		case 5:
			xs := mk(10)
			arr := append(append([]int{}, xs...), sent(r.intn(3))...)
			g.op("pop A=%s n=%d", encList(arr), len(xs))
		case 6:
			g.op("distinct s=%s", encList(mk(40)))
		default:
			k := r.intn(5)
			parts := make([][]int, k)
			for i := range parts {
				parts[i] = mk(12)
			}
			names := []string{"union", "intersection", "disjoin"}
			g.op("%s ss=%s", names[r.intn(3)], encLists(parts))
			if k == 2 {
				g.op("difference ss=%s", encLists(parts))
			}
		}
	}
	// ---- wide stream: many distinct values (beyond any small-size fast path), every value repeated somewhere ----
	g.newCase("stratum=wide")
	for t := 0; t < nRandom/4+50; t++ {
		r := g.rng
		alpha := []int{9, 10, 12, 17, 33, 40, 65}[r.intn(7)]
		mkWide := func() []int {
			// a prefix enumerating d distinct values in random order, then repeats of random earlier positions
			d := r.rangeIn(alpha/2, alpha)
			perm := make([]int, d)
			for i := range perm {
				perm[i] = i
			}
			for i := d - 1; i > 0; i-- {
				j := r.intn(i + 1)
				perm[i], perm[j] = perm[j], perm[i]
			}
			xs := append([]int{}, perm...)
			for i, n := 0, r.rangeIn(1, d); i < n; i++ {
				xs = append(xs, perm[r.intn(d)])
			}
			// sometimes shuffle everything
			if r.chance(1, 3) {
				for i := len(xs) - 1; i > 0; i-- {
					j := r.intn(i + 1)
					xs[i], xs[j] = xs[j], xs[i]
				}
			}
			return xs
		}
		switch r.intn(5) {
		case 0:
			g.op("distinct s=%s", encList(mkWide()))
		case 1:
			g.op("disjoin ss=%s", encLists([][]int{mkWide()}))
		default:
			k := r.rangeIn(1, 3)
			parts := make([][]int, k)
			for i := range parts {
				parts[i] = mkWide()
			}
			names := []string{"union", "intersection", "disjoin"}
			g.op("%s ss=%s", names[r.intn(3)], encLists(parts))
			if k == 2 {
				g.op("difference ss=%s", encLists(parts))
			}
		}
	}
	// ---- malformed / edge stream ----
	g.newCase("stratum=edge")
	g.op("remove A=- n=0 i=0 j=0")
	g.op("cut A=- n=0 i=0 j=0")
	g.op("pop A=- n=0")
	g.op("pop A=77777 n=0")
	g.op("insert s=- cap=0 i=0 v=-")
	g.op("filter A=- n=0 keep=-")
	g.op("push s=- v=-")
	g.op("union ss=none")
	g.op("intersection ss=none")
	g.op("disjoin ss=none")
	g.op("difference ss=-;-")
	g.op("remove A=1,2,3 n=3 i=2 j=1") // i > j: Go panics, the model must say so
	g.op("remove A=1,2,3 n=3 i=1 j=4") // j > len = cap
}

func sent(n int) []int {
	out := make([]int, n)
	for i := range out {
		out[i] = sentinel
	}
	return out
}

// genInPlaceAll emits every (len, i, j) / predicate for the in-place functions on pattern xs,
// with the array extended by one sentinel slot.
func genInPlaceAll(g *genCtx, xs []int) {
	n := len(xs)
	arr := append(append([]int{}, xs...), sentinel)
	for i := 0; i <= n; i++ {
		for j := i; j <= n; j++ {
			g.op("remove A=%s n=%d i=%d j=%d", encList(arr), n, i, j)
			g.op("cut A=%s n=%d i=%d j=%d", encList(arr), n, i, j)
		}
		if n <= 3 {
			for vn := 0; vn <= 2; vn++ {
				v := []int{9, 1}[:vn]
				g.op("insert s=%s cap=%d i=%d v=%s", encList(xs), vn, i, encList(v))
			}
		}
	}
	// all subsets of the alphabet as predicates
	maxv := 0
	minv := 1
	for _, v := range xs {
		if v > maxv {
			maxv = v
		}
		if v < minv {
			minv = v
		}
	}
	alpha := []int{}
	for v := minv; v <= maxv; v++ {
		alpha = append(alpha, v)
	}
	for mask := 0; mask < 1<<len(alpha); mask++ {
		keep := []int{}
		for b, v := range alpha {
			if mask&(1<<b) != 0 {
				keep = append(keep, v)
			}
		}
		g.op("filter A=%s n=%d keep=%s", encList(arr), n, encList(keep))
	}
	g.op("pop A=%s n=%d", encList(arr), n)
	if n <= 3 {
		g.op("push s=%s v=%s", encList(xs), encList([]int{8, 9}))
	}
}

// withSpare copies xs into a fresh array with two sentinel slots of spare capacity.
func withSpare(xs []int) (s []int, full []int) {
	full = make([]int, len(xs)+2)
	copy(full, xs)
	full[len(xs)] = sentinel
	full[len(xs)+1] = sentinel
	return full[:len(xs):len(xs)+2], full
}

func execSliceOps(x *execCtx) {
	for x.in.Scan() {
		line := x.in.Text()
		if strings.HasPrefix(line, "case ") || line == "" {
			fmt.Fprintln(x.w, line)
			continue
		}
		toks := strings.Fields(line)
		f := fields(toks[1:])
		obs := protect(func() string {
			switch toks[0] {
			case "remove", "cut", "filter", "pop":
				arr := decList(f["A"])
				n := atoi(f["n"])
				backing := append([]int{}, arr...)
				s := backing[:n]
				switch toks[0] {
				case "remove":
					sliceOps.Remove(&s, atoi(f["i"]), atoi(f["j"]))
					return fmt.Sprintf("arr=%s len=%d", encList(backing), len(s))
				case "cut":
					out := sliceOps.Cut(&s, atoi(f["i"]), atoi(f["j"]))
					// the returned slice must not alias the array: scribble on it and re-read
					cp := append([]int{}, out...)
					for k := range out {
						out[k] = -5
					}
					return fmt.Sprintf("out=%s arr=%s len=%d", encList(cp), encList(backing), len(s))
				case "filter":
					keep := map[int]bool{}
					for _, v := range decList(f["keep"]) {
						keep[v] = true
					}
					sliceOps.FilterInPlace(&s, func(v int) bool { return keep[v] })
					return fmt.Sprintf("arr=%s len=%d", encList(backing), len(s))
				default:
					v := sliceOps.Pop(&s)
					return fmt.Sprintf("val=%d arr=%s len=%d", v, encList(backing), len(s))
				}
			case "insert":
				xs := decList(f["s"])
				capx := atoi(f["cap"])
				backing := make([]int, len(xs)+capx)
				copy(backing, xs)
				for k := len(xs); k < len(backing); k++ {
					backing[k] = sentinel
				}
				out := sliceOps.Insert(backing[:len(xs)], atoi(f["i"]), decList(f["v"])...)
				return "out=" + encList(out)
			case "push":
				xs := decList(f["s"])
				s := append([]int{}, xs...)
				sliceOps.Push(&s, decList(f["v"])...)
				return "out=" + encList(s)
			case "distinct":
				s, full := withSpare(decList(f["s"]))
				before := append([]int{}, full...)
				out := sliceOps.Distinct(s)
				return fmt.Sprintf("out=%s pure=%d", encList(out), b2i(eqInts(before, full)))
			case "union", "intersection", "disjoin", "difference":
				parts := decLists(f["ss"])
				args := make([][]int, len(parts))
				fulls := make([][]int, len(parts))
				befores := make([][]int, len(parts))
				for i, p := range parts {
					args[i], fulls[i] = withSpare(p)
					befores[i] = append([]int{}, fulls[i]...)
				}
				// the argument list itself is an input too: a caller that spreads its own slice of slices (`f(groups...)`)
				// must find every element where it was, with the same array, length and capacity
				type hdr struct {
					p        *int
					len, cap int
				}
				hdrOf := func(x []int) hdr { return hdr{unsafe.SliceData(x), len(x), cap(x)} }
				hdrs := make([]hdr, len(args))
				for i := range args {
					hdrs[i] = hdrOf(args[i])
				}
				var out []int
				switch toks[0] {
				case "union":
					out = sliceOps.Union(args...)
				case "intersection":
					out = sliceOps.Intersection(args...)
				case "disjoin":
					out = sliceOps.Disjoin(args...)
				default:
					out = sliceOps.Difference(args[0], args[1])
				}
				cp := append([]int{}, out...)
				// a result that aliases an argument is a way of modifying it later: scribble and compare
				for k := range out {
					out[k] = -5
				}
				pure := true
				for i := range fulls {
					pure = pure && eqInts(befores[i], fulls[i]) && hdrOf(args[i]) == hdrs[i]
				}
				return fmt.Sprintf("out=%s pure=%d", encList(cp), b2i(pure))
			}
			return "bad-op"
		})
		x.out(line, obs)
	}
}

func b2i(b bool) int {
	if b {
		return 1
	}
	return 0
}
func eqInts(a, b []int) bool {
	if len(a) != len(b) {
		return false
	}
	for i := range a {
		if a[i] != b[i] {
			return false
		}
	}
	return true
}
