package main

import (
	"strconv"
	"errors"
	"fmt"
	"sort"
	"strings"
	"sync"
	"sync/atomic"

	"github.com/rbell/toolchest/generic"
	"github.com/rbell/toolchest/storage"
)

func init() {
	components["maps"] = &component{gen: genMaps, exec: execMaps}
	components["mapsconc"] = &component{gen: genMapsConc, exec: execMaps}
}

// ---- sequential: every method of SafeMap and SyncMap against the ordinary-map model ----

func genMaps(g *genCtx) {
	nCases := int(600 * g.scale)
	maxOps := 60
	if !g.quick() {
		nCases = int(20000 * g.scale)
		maxOps = 120
	}
	safeOps := []string{"contains", "get", "getoradd", "set", "delete", "clear", "clearresize", "has", "len", "keys", "values", "copy", "translate"}
	syncOps := []string{"load", "store", "swap", "delete", "loadorstore", "loadanddelete", "cad", "cas", "range", "iterate", "clear"}
	for t := 0; t < nCases; t++ {
		r0 := newRng(g.seed*77 + uint64(t))
		kind := []string{"safe", "sync", "safeptr", "syncerr", "safestr"}[r0.intn(5)]
		g.newCase("kind=" + kind)
		r := g.rng
		g.op("new kind=%s", kind)
		for i, n := 0, r.rangeIn(1, maxOps); i < n; i++ {
			k, v, w := r.intn(5), r.intn(4), r.intn(4) // v = 0 is the zero value / nil
			var op string
			if strings.HasPrefix(kind, "safe") {
				op = safeOps[r.intn(len(safeOps))]
			} else {
				op = syncOps[r.intn(len(syncOps))]
			}
			g.op("%s k=%d v=%d w=%d", op, k, v, w)
		}
	}
}

func genMapsConc(g *genCtx) {
	rounds := int(400 * g.scale)
	loops := 60000
	if !g.quick() {
		rounds = int(20000 * g.scale)
		loops = 2000000
	}
	g.newCase("kind=goa-delete")
	g.op("goadel iters=%d", loops)
	g.newCase("kind=nil-interface")
	g.op("nilops")
	for t := 0; t < rounds; t++ {
		g.newCase("kind=hist")
		r := g.rng
		g.op("hist obj=%s g=%d ops=%d keys=%d seed=%d", []string{"safe", "sync"}[r.intn(2)], r.rangeIn(2, 4), r.rangeIn(2, 5), r.rangeIn(1, 3), r.intn(1<<30))
	}
}

// mapObj abstracts the instantiations driven sequentially. Values are ints 0..3; for pointer /
// interface instantiations 0 stands for nil.
type mapObj interface {
	do(op string, k, v, w int) string
}

var ptrVals = []*int{nil, new(int), new(int), new(int)}
var errVals = []error{nil, errors.New("e1"), errors.New("e2"), errors.New("e3")}
var strVals = []string{"", "a", "b", "c"}

func idxOfPtr(p *int) int {
	for i, q := range ptrVals {
		if p == q {
			return i
		}
	}
	return 99
}
func idxOfErr(e error) int {
	for i, q := range errVals {
		if e == q {
			return i
		}
	}
	return 99
}
func idxOfStr(s string) int {
	for i, q := range strVals {
		if s == q {
			return i
		}
	}
	return 99
}

type safeObj[V any] struct {
	m     *storage.SafeMap[int, V]
	enc   func(V) int
	dec   func(int) V
	alias int
}

func sortedPairs(ks []int, vs []int) string {
	idx := make([]int, len(ks))
	for i := range idx {
		idx[i] = i
	}
	sort.Slice(idx, func(a, b int) bool { return ks[idx[a]] < ks[idx[b]] })
	parts := []string{}
	for _, i := range idx {
		parts = append(parts, fmt.Sprintf("%d:%d", ks[i], vs[i]))
	}
	if len(parts) == 0 {
		return "-"
	}
	return strings.Join(parts, ",")
}

func (o *safeObj[V]) do(op string, k, v, w int) string {
	m := o.m
	switch op {
	case "contains":
		return fmt.Sprintf("b=%d", b2i(m.Contains(k)))
	case "has":
		return fmt.Sprintf("b=%d", b2i(m.Has(k)))
	case "get":
		return fmt.Sprintf("v=%d", o.enc(m.Get(k)))
	case "getoradd":
		return fmt.Sprintf("v=%d", o.enc(m.GetOrAdd(k, o.dec(v))))
	case "set":
		m.Set(k, o.dec(v))
		return "ok"
	case "delete":
		m.Delete(k)
		return "ok"
	case "clear":
		m.Clear()
		return "ok"
	case "clearresize":
		m.ClearAndResize(k + 1)
		return "ok"
	case "len":
		return fmt.Sprintf("n=%d", m.Len())
	case "keys":
		ks := m.Keys()
		cp := append([]int{}, ks...)
		sort.Ints(cp)
		for i := range ks { // a snapshot must not alias the map: scribble on it
			ks[i] = -1
		}
		return "keys=" + encList(cp)
	case "values":
		vs := m.Values()
		out := []int{}
		for _, x := range vs {
			out = append(out, o.enc(x))
		}
		sort.Ints(out)
		return "vals=" + encList(out)
	case "copy", "translate":
		var ks, vs []int
		if op == "copy" {
			cp := m.CopyToMap()
			for kk, vv := range cp {
				ks, vs = append(ks, kk), append(vs, o.enc(vv))
			}
			// mutate the snapshot, then the map must be unchanged; mutate the map, the snapshot is already rendered
			for kk := range cp {
				delete(cp, kk)
			}
			cp[4242] = o.dec(1)
		} else {
			tm := storage.TranslateToMapOf(m, func(x V) int { return o.enc(x) })
			for kk, vv := range tm {
				ks, vs = append(ks, kk), append(vs, vv)
			}
			tm[4242] = 1
		}
		if m.Contains(4242) {
			o.alias++
		}
		return fmt.Sprintf("map=%s alias=%d", sortedPairs(ks, vs), o.alias)
	}
	return "bad-op"
}

type syncObj[V comparable] struct {
	m   *generic.SyncMap[int, V]
	enc func(V) int
	dec func(int) V
}

func (o *syncObj[V]) do(op string, k, v, w int) string {
	m := o.m
	switch op {
	case "load":
		x, ok := m.Load(k)
		return fmt.Sprintf("v=%d ok=%d", o.enc(x), b2i(ok))
	case "store":
		m.Store(k, o.dec(v))
		return "ok"
	case "swap":
		x, ok := m.Swap(k, o.dec(v))
		return fmt.Sprintf("v=%d ok=%d", o.enc(x), b2i(ok))
	case "delete":
		m.Delete(k)
		return "ok"
	case "loadorstore":
		x, ok := m.LoadOrStore(k, o.dec(v))
		return fmt.Sprintf("v=%d ok=%d", o.enc(x), b2i(ok))
	case "loadanddelete":
		x, ok := m.LoadAndDelete(k)
		return fmt.Sprintf("v=%d ok=%d", o.enc(x), b2i(ok))
	case "cad":
		return fmt.Sprintf("b=%d", b2i(m.CompareAndDelete(k, o.dec(v))))
	case "cas":
		return fmt.Sprintf("b=%d", b2i(m.CompareAndSwap(k, o.dec(v), o.dec(w))))
	case "range", "iterate":
		var ks, vs []int
		if op == "range" {
			m.Range(func(kk int, vv V) bool {
				ks, vs = append(ks, kk), append(vs, o.enc(vv))
				return true
			})
		} else {
			for kk, vv := range m.Iterate() {
				ks, vs = append(ks, kk), append(vs, o.enc(vv))
			}
		}
		return "map=" + sortedPairs(ks, vs)
	case "clear":
		m.Clear()
		return "ok"
	}
	return "bad-op"
}

func newMapObj(kind string) mapObj {
	id := func(x int) int { return x }
	switch kind {
	case "safe":
		return &safeObj[int]{m: storage.NewSafeMap[int, int](0), enc: id, dec: id}
	case "safeptr":
		return &safeObj[*int]{m: storage.NewSafeMap[int, *int](4), enc: idxOfPtr, dec: func(i int) *int { return ptrVals[i] }}
	case "safestr":
		return &safeObj[string]{m: storage.NewSafeMap[int, string](0), enc: idxOfStr, dec: func(i int) string { return strVals[i] }}
	case "sync":
		return &syncObj[int]{m: generic.NewSyncMap[int, int](), enc: id, dec: id}
	case "syncerr":
		return &syncObj[error]{m: generic.NewSyncMap[int, error](), enc: idxOfErr, dec: func(i int) error { return errVals[i] }}
	}
	return nil
}

func execMaps(x *execCtx) {
	var obj mapObj
	for x.in.Scan() {
		line := x.in.Text()
		if strings.HasPrefix(line, "case ") || line == "" {
			fmt.Fprintln(x.w, line)
			continue
		}
		toks := strings.Fields(line)
		f := fields(toks[1:])
		obs := protect(func() string {
			switch toks[0] {
			case "new":
				obj = newMapObj(f["kind"])
				return "ok"
			case "goadel":
				return goaDelete(atoi(f["iters"]))
			case "nilops":
				return nilOps()
			case "hist":
				return recordHistory(f["obj"], atoi(f["g"]), atoi(f["ops"]), atoi(f["keys"]), uint64(atoi(f["seed"])))
			default:
				if obj == nil {
					return "bad-op:no-object"
				}
				return obj.do(toks[0], atoi(f["k"]), atoi(f["v"]), atoi(f["w"]))
			}
		})
		x.out(line, obs)
	}
}

// goaDelete: the schedule of the property text — GetOrAdd racing with Delete on a present key must
// never return the zero value (the key holds 7, the candidate is 5: any linearization returns 7 or 5).
func goaDelete(iters int) string {
	m := storage.NewSafeMap[int, int](0)
	var zero atomic.Int64
	var wg sync.WaitGroup
	stop := atomic.Bool{}
	wg.Add(1)
	go func() {
		defer wg.Done()
		for !stop.Load() {
			m.Set(1, 7)
			m.Delete(1)
		}
	}()
	for i := 0; i < iters; i++ {
		if v := m.GetOrAdd(1, 5); v != 7 && v != 5 {
			zero.Add(1)
		}
		m.Delete(1)
	}
	stop.Store(true)
	wg.Wait()
	return fmt.Sprintf("zero=%d %s", zero.Load(), raceObs())
}

// nilOps: every SyncMap method on a stored nil interface value.
func nilOps() string {
	panics := []string{}
	try := func(name string, f func()) {
		defer func() {
			if r := recover(); r != nil {
				panics = append(panics, name)
			}
		}()
		f()
	}
	wrong := 0
	mk := func() *generic.SyncMap[int, error] {
		m := generic.NewSyncMap[int, error]()
		m.Store(1, nil)
		return m
	}
	try("Load", func() {
		if v, ok := mk().Load(1); v != nil || !ok {
			wrong++
		}
	})
	try("Swap", func() {
		if v, ok := mk().Swap(1, errVals[1]); v != nil || !ok {
			wrong++
		}
	})
	try("LoadOrStore", func() {
		if v, ok := mk().LoadOrStore(1, errVals[1]); v != nil || !ok {
			wrong++
		}
	})
	try("LoadAndDelete", func() {
		if v, ok := mk().LoadAndDelete(1); v != nil || !ok {
			wrong++
		}
	})
	try("Range", func() {
		n := 0
		mk().Range(func(k int, v error) bool {
			if v == nil {
				n++
			}
			return true
		})
		if n != 1 {
			wrong++
		}
	})
	try("Iterate", func() {
		n := 0
		for _, v := range mk().Iterate() {
			if v == nil {
				n++
			}
		}
		if n != 1 {
			wrong++
		}
	})
	try("SafeMapGetMiss", func() {
		if storage.NewSafeMap[int, error](0).Get(1) != nil || storage.NewSafeMap[int, *int](0).Get(1) != nil {
			wrong++
		}
	})
	p := "-"
	if len(panics) > 0 {
		p = strings.Join(panics, ",")
	}
	return fmt.Sprintf("panics=%d wrong=%d which=%s", len(panics), wrong, p)
}

// recordHistory: G goroutines x N ops on <= `keys` keys, every call stamped before and after from
// one atomic counter; the recorded history is judged by the Lean linearizability procedure.
// Output: ops=<t:op:k:v:w:ret:c:e;...> races=..
func recordHistory(objKind string, G, N, keys int, seed uint64) string {
	type rec struct {
		t          int
		op         string
		k, v, w    int
		ret        string
		c, e       int64
	}
	var ctr atomic.Int64
	var mu sync.Mutex
	recs := []rec{}
	safe := storage.NewSafeMap[int, int](0)
	syn := generic.NewSyncMap[int, int]()
	var wg sync.WaitGroup
	start := make(chan struct{})
	for t := 0; t < G; t++ {
		wg.Add(1)
		go func(t int) {
			defer wg.Done()
			r := newRng(seed + uint64(t)*31337)
			<-start
			for i := 0; i < N; i++ {
				k, v, w := r.intn(keys), r.rangeIn(1, 3), r.rangeIn(1, 3)
				var op, ret string
				c := ctr.Add(1)
				if objKind == "safe" {
					op = []string{"getoradd", "getoradd", "get", "set", "delete", "delete", "has", "len",
						"set", "delete", "keys", "values", "copy", "translate", "translate", "contains", "clear"}[r.intn(17)]
					encMap := func(mm map[int]int) string {
						ks := []int{}
						for kk := range mm {
							ks = append(ks, kk)
						}
						sort.Ints(ks)
						ps := []string{}
						for _, kk := range ks {
							ps = append(ps, fmt.Sprintf("%d_%d", kk, mm[kk]))
						}
						return "M" + strings.Join(ps, ".")
					}
					encInts := func(tag string, xs []int) string {
						sort.Ints(xs)
						ps := []string{}
						for _, x := range xs {
							ps = append(ps, strconv.Itoa(x))
						}
						return tag + strings.Join(ps, ".")
					}
					switch op {
					case "keys":
						ret = encInts("K", safe.Keys())
					case "values":
						ret = encInts("V", safe.Values())
					case "copy":
						ret = encMap(safe.CopyToMap())
					case "translate":
						ret = encMap(storage.TranslateToMapOf(safe, func(x int) int { return x }))
					case "contains":
						ret = fmt.Sprintf("b%d", b2i(safe.Contains(k)))
					case "clear":
						safe.Clear()
						ret = "u"
					case "getoradd":
						ret = fmt.Sprintf("v%d", safe.GetOrAdd(k, v))
					case "get":
						ret = fmt.Sprintf("v%d", safe.Get(k))
					case "set":
						safe.Set(k, v)
						ret = "u"
					case "delete":
						safe.Delete(k)
						ret = "u"
					case "has":
						ret = fmt.Sprintf("b%d", b2i(safe.Has(k)))
					case "len":
						ret = fmt.Sprintf("n%d", safe.Len())
					}
				} else {
					op = []string{"loadorstore", "load", "store", "delete", "swap", "loadanddelete", "cas", "cad"}[r.intn(8)]
					switch op {
					case "loadorstore":
						x, ok := syn.LoadOrStore(k, v)
						ret = fmt.Sprintf("o%d.%d", x, b2i(ok))
					case "load":
						x, ok := syn.Load(k)
						ret = fmt.Sprintf("o%d.%d", x, b2i(ok))
					case "store":
						syn.Store(k, v)
						ret = "u"
					case "delete":
						syn.Delete(k)
						ret = "u"
					case "swap":
						x, ok := syn.Swap(k, v)
						ret = fmt.Sprintf("o%d.%d", x, b2i(ok))
					case "loadanddelete":
						x, ok := syn.LoadAndDelete(k)
						ret = fmt.Sprintf("o%d.%d", x, b2i(ok))
					case "cas":
						ret = fmt.Sprintf("b%d", b2i(syn.CompareAndSwap(k, v, w)))
					case "cad":
						ret = fmt.Sprintf("b%d", b2i(syn.CompareAndDelete(k, v)))
					}
				}
				e := ctr.Add(1)
				mu.Lock()
				recs = append(recs, rec{t, op, k, v, w, ret, c, e})
				mu.Unlock()
			}
		}(t)
	}
	close(start)
	wg.Wait()
	sort.Slice(recs, func(i, j int) bool { return recs[i].c < recs[j].c })
	parts := []string{}
	for _, r := range recs {
		parts = append(parts, fmt.Sprintf("%d:%s:%d:%d:%d:%s:%d:%d", r.t, r.op, r.k, r.v, r.w, r.ret, r.c, r.e))
	}
	return "ops=" + strings.Join(parts, ";") + " " + raceObs()
}
