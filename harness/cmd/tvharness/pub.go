package main

import (
	"fmt"
	"os"
	"sort"
	"strings"
	"sync"
	"sync/atomic"
	"time"

	"github.com/rbell/toolchest/publisher"
)

func init() {
	components["pub"] = &component{gen: genPub, exec: func(x *execCtx) { runIsolated("pub", x, 90*time.Second) }}
	components["pub!case"] = &component{exec: execPubCase}
	components["pubstress"] = &component{gen: genPubStress, exec: func(x *execCtx) { runIsolated("pubstress", x, 120*time.Second) }}
	components["pubstress!case"] = &component{exec: execPubStressCase}
}

const (
	pubShort = 500 * time.Millisecond
	pubLong  = 60 * time.Second
	pubSleep = 1200 * time.Millisecond
	pubEpoch = 300 * time.Millisecond // an epoch (time since the last sleep) longer than this makes timer observations unreliable
)

func genPub(g *genCtx) {
	profile := "C06"
	for _, a := range flagExtra {
		if strings.HasPrefix(a, "profile=") {
			profile = a[len("profile="):]
		}
	}
	nCases := int(220 * g.scale)
	maxOps := 12
	if !g.quick() {
		nCases = int(4000 * g.scale)
		maxOps = 16
	}
	filters := []string{"none", "none", "even", "odd", "never"}
	for t := 0; t < nCases; t++ {
		g.newCase("profile=" + profile)
		r := g.rng
		g.op("new")
		subs := 0
		closedPub := false
		sleeps := 0
		addSub := func() {
			to := "long"
			if profile == "C15" && r.chance(1, 2) || r.chance(1, 5) {
				to = "short"
			}
			g.op("sub cap=%d filter=%s to=%s cbf=%d cbt=%d", r.intn(4), filters[r.intn(len(filters))], to, r.intn(2), r.intn(2))
			subs++
		}
		for i, k := 0, r.rangeIn(1, 3); i < k; i++ {
			addSub()
		}
		msg := 0
		for i, n := 0, r.rangeIn(3, maxOps); i < n; i++ {
			x := r.intn(100)
			switch {
			case x < 40:
				msg++
				g.op("pub v=%d", msg)
			case x < 62:
				g.op("recv sub=%d", r.intn(subs)+1)
			case x < 68 && subs < 4:
				addSub()
			case x < 80 && (profile == "C10" || r.chance(1, 3)):
				g.op("closesub sub=%d", r.intn(subs)+1)
			case x < 84 && (profile == "C10" || r.chance(1, 4)) && !closedPub:
				g.op("closepub")
				closedPub = r.chance(1, 2) // sometimes close it twice
			case x < 92 && sleeps < 1 && profile != "C10":
				g.op("sleep")
				sleeps++
			default:
				g.op("obs")
			}
		}
		if profile == "C15" && sleeps < 1 {
			g.op("sleep")
		}
		// drain what is readable
		for s := 1; s <= subs; s++ {
			for k := 0; k < 2; k++ {
				g.op("recv sub=%d", s)
			}
		}
		g.op("final")
	}
}

type pubSub struct {
	s      *publisher.Subscriber[int]
	recvd  []int
	closed bool
}

type pubRun struct {
	mu         sync.Mutex
	p          *publisher.Publication[int]
	subs       []*pubSub
	cbs        []string
	progress   atomic.Int64
	epochStart time.Time
	unstable   bool
}

func (r *pubRun) observe(extra string) string {
	gs := settle("toolchest/publisher.", func() int64 { return r.progress.Load() }, 8*time.Second)
	if gs == nil {
		return extra + "noquiesce"
	}
	pend, rlock := 0, 0
	for _, g := range gs {
		if g.mentions("Publish.func") {
			if g.state == "select" {
				pend++
			} else {
				rlock++
			}
		}
	}
	if time.Since(r.epochStart) > pubEpoch {
		r.unstable = true
	}
	r.mu.Lock()
	defer r.mu.Unlock()
	bufs := []int{}
	recs := []string{}
	for _, s := range r.subs {
		bufs = append(bufs, len(s.s.Receive()))
		recs = append(recs, encList(s.recvd))
	}
	cbs := append([]string{}, r.cbs...)
	sort.Strings(cbs)
	cb := "none"
	if len(cbs) > 0 {
		cb = strings.Join(cbs, ",")
	}
	rc := "none"
	if len(recs) > 0 {
		rc = strings.Join(recs, ";")
	}
	u := ""
	if r.unstable {
		u = "unstable=1 "
	}
	return fmt.Sprintf("%s%sbufs=%s recvd=%s cbs=%s pend=%d other=%d", u, extra, encList(bufs), rc, cb, pend, rlock)
}

func execPubCase(x *execCtx) {
	real := os.Stdout
	out := func(op, obs string) { fmt.Fprintf(real, "%s => %s\n", op, obs) }
	var r *pubRun
	for x.in.Scan() {
		line := x.in.Text()
		if strings.HasPrefix(line, "case ") || line == "" {
			fmt.Fprintln(real, line)
			continue
		}
		toks := strings.Fields(line)
		f := fields(toks[1:])
		if r == nil && toks[0] != "new" {
			out(line, "bad-op:no-publication")
			continue
		}
		switch toks[0] {
		case "new":
			r = &pubRun{p: publisher.NewPublication[int](), epochStart: time.Now()}
			out(line, r.observe(""))
		case "sub":
			idx := len(r.subs) + 1
			opts := []publisher.SubscriberOption[int]{}
			switch f["filter"] {
			case "even":
				opts = append(opts, publisher.WithFilter(func(v int) bool { return v%2 == 0 }))
			case "odd":
				opts = append(opts, publisher.WithFilter(func(v int) bool { return v%2 == 1 }))
			case "never":
				opts = append(opts, publisher.WithFilter(func(v int) bool { return false }))
			}
			if f["to"] == "short" {
				opts = append(opts, publisher.WithTimeout[int](pubShort))
			} else {
				opts = append(opts, publisher.WithTimeout[int](pubLong))
			}
			if f["cbf"] == "1" {
				opts = append(opts, publisher.OnFiltered(func(v int) {
					r.mu.Lock()
					r.cbs = append(r.cbs, fmt.Sprintf("f:%d:%d", idx, v))
					r.mu.Unlock()
					r.progress.Add(1)
				}))
			}
			if f["cbt"] == "1" {
				opts = append(opts, publisher.OnTimeout(func(v int) {
					r.mu.Lock()
					r.cbs = append(r.cbs, fmt.Sprintf("t:%d:%d", idx, v))
					r.mu.Unlock()
					r.progress.Add(1)
				}))
			}
			// the options are independent of each other: every order must configure the same subscriber
			if k := (idx*7 + len(line)) % len(opts); k > 0 {
				opts = append(append([]publisher.SubscriberOption[int]{}, opts[k:]...), opts[:k]...)
			}
			if idx%2 == 0 {
				for i, j := 0, len(opts)-1; i < j; i, j = i+1, j-1 {
					opts[i], opts[j] = opts[j], opts[i]
				}
			}
			s := r.p.Subscribe(atoi(f["cap"]), opts...)
			r.mu.Lock()
			r.subs = append(r.subs, &pubSub{s: s})
			r.mu.Unlock()
			out(line, r.observe(""))
		case "pub":
			t0 := time.Now()
			r.p.Publish(atoi(f["v"]))
			el := time.Since(t0)
			blocked := 0
			if el > 100*time.Millisecond {
				blocked = 1
			}
			out(line, r.observe(fmt.Sprintf("blocked=%d ", blocked)))
		case "recv":
			k := atoi(f["sub"]) - 1
			got := "none"
			if k >= 0 && k < len(r.subs) {
				take := func(v int, ok bool) {
					if ok {
						got = fmt.Sprint(v)
						r.mu.Lock()
						r.subs[k].recvd = append(r.subs[k].recvd, v)
						r.mu.Unlock()
					} else {
						got = "closed"
					}
				}
				// at a quiescent point a buffered value or a blocked sender makes the channel ready at once.  The timer is
				// only a guard; on a loaded machine it may have fired by the time the select looks (both cases ready, random
				// choice), so the channel is polled without it first and once more after it.
				ch := r.subs[k].s.Receive()
				select {
				case v, ok := <-ch:
					take(v, ok)
				default:
					select {
					case v, ok := <-ch:
						take(v, ok)
					case <-time.After(2 * time.Millisecond):
						select {
						case v, ok := <-ch:
							take(v, ok)
						default:
						}
					}
				}
			}
			out(line, r.observe("got="+got+" "))
		case "closesub", "closepub":
			// a close must complete promptly whatever is pending (C10): a close that waits for a delivery's timeout is a hang
			done := make(chan struct{})
			go func() {
				defer close(done)
				if toks[0] == "closepub" {
					r.p.Close()
				} else if k := atoi(f["sub"]) - 1; k >= 0 && k < len(r.subs) {
					r.subs[k].s.Close()
				}
			}()
			select {
			case <-done:
				out(line, r.observe(""))
			case <-time.After(3 * time.Second):
				out(line, "hang:close_did_not_return_within_3s")
				os.Exit(3)
			}
		case "sleep":
			time.Sleep(pubSleep)
			r.epochStart = time.Now()
			out(line, r.observe(""))
		case "obs", "final":
			out(line, r.observe(""))
		default:
			out(line, "bad-op")
		}
	}
}

// ---- ungated stress: publishers x subscribers x closers under the race detector ----

func genPubStress(g *genCtx) {
	rounds := int(24 * g.scale)
	if !g.quick() {
		rounds = int(400 * g.scale)
	}
	// subscriber churn: Subscribe, publish one marker, receive it, Close — thousands of times, while other goroutines publish
	churn := 3000
	if !g.quick() {
		churn = int(200000 * g.scale)
	}
	g.newCase("kind=churn")
	g.op("churn iters=%d pad=300 pubs=4", churn)
	// a slow OnFiltered callback on one subscriber must not eat into the timeout of the others
	g.newCase("kind=slowcb")
	g.op("slowcb msgs=5")
	// a timeout of zero (or less) is a timeout: with nobody receiving, the message is dropped at once, not after the default
	g.newCase("kind=zeroto")
	g.op("zeroto msgs=5")
	for t := 0; t < rounds; t++ {
		g.newCase("kind=stress")
		r := g.rng
		pcl := 0
		if t%3 == 1 {
			pcl = 1 + t%2 // Publication.Close from 1-2 goroutines, racing with Subscriber.Close and Publish
		}
		// late: subscribers (with a filter) that register while the publishers run; zero: the first `zero` subscribers do not wait (timeout 0)
		// pad: subscribers that reject everything (a long subscriber list widens every window inside Publish)
		// selfclose: extra subscribers that nobody receives from, with a short timeout and an OnTimeout callback that closes them
		g.op("stress pubs=%d subs=%d msgs=%d closers=%d seed=%d pclosers=%d late=%d zero=%d selfclose=%d pad=%d", r.rangeIn(1, 4), r.rangeIn(1, 5), r.rangeIn(10, 120)+(t%2)*100, r.intn(3), r.intn(1<<30), pcl, latePar(t), (t%5)/3, (t%3)/2*(1+t%2), (t%2)*300)
	}
}

// latePar: how many subscribers register while the publishers run (more of them when the subscriber list is padded)
func latePar(t int) int {
	if t%2 == 1 {
		return 12 + t%5
	}
	return (t % 4) / 2 * (1 + t%3)
}

func execPubStressCase(x *execCtx) {
	real := os.Stdout
	for x.in.Scan() {
		line := x.in.Text()
		if strings.HasPrefix(line, "case ") || line == "" {
			fmt.Fprintln(real, line)
			continue
		}
		toks := strings.Fields(line)
		f := fields(toks[1:])
		if toks[0] == "slowcb" {
			fmt.Fprintf(real, "%s => %s\n", line, pubSlowCallback(atoi(f["msgs"])))
			continue
		}
		if toks[0] == "zeroto" {
			fmt.Fprintf(real, "%s => %s\n", line, pubZeroTimeout(atoi(f["msgs"])))
			continue
		}
		if toks[0] == "churn" {
			fmt.Fprintf(real, "%s => %s\n", line, pubChurn(atoi(f["iters"]), atoi(f["pad"]), atoi(f["pubs"])))
			continue
		}
		if toks[0] != "stress" {
			fmt.Fprintf(real, "%s => bad-op\n", line)
			continue
		}
		fmt.Fprintf(real, "%s => %s\n", line, pubStress(atoi(f["pubs"]), atoi(f["subs"]), atoi(f["msgs"]), atoi(f["closers"]), uint64(atoi(f["seed"])), atoiOr(f["pclosers"], 0), atoiOr(f["late"], 0), atoiOr(f["zero"], 0), atoiOr(f["selfclose"], 0), atoiOr(f["pad"], 0)))
	}
}

// pubSlowCallback: one subscriber rejects everything and its OnFiltered callback takes 700 ms; four others have a 500 ms
// timeout and are blocked in a receive all the time: each of them gets every message (a subscriber's timeout runs from the
// moment its delivery can start, not from the moment Publish was entered) and no OnTimeout fires.
func pubSlowCallback(M int) string {
	p := publisher.NewPublication[int]()
	p.Subscribe(0, publisher.WithFilter(func(int) bool { return false }), publisher.OnFiltered(func(int) { time.Sleep(700 * time.Millisecond) }))
	const N = 4
	var timeouts atomic.Int64
	got := make([][]int, N)
	var wg sync.WaitGroup
	for i := 0; i < N; i++ {
		s := p.Subscribe(0, publisher.WithTimeout[int](500*time.Millisecond), publisher.OnTimeout(func(int) { timeouts.Add(1) }))
		wg.Add(1)
		go func(i int) {
			defer wg.Done()
			for v := range s.Receive() {
				got[i] = append(got[i], v)
			}
		}(i)
	}
	time.Sleep(20 * time.Millisecond) // the receivers are parked
	for m := 1; m <= M; m++ {
		p.Publish(m)
	}
	settle("toolchest/publisher.", func() int64 { return 0 }, 10*time.Second)
	p.Close()
	wg.Wait()
	missing, dup := 0, 0
	for i := range got {
		seen := map[int]int{}
		for _, v := range got[i] {
			seen[v]++
		}
		for m := 1; m <= M; m++ {
			if seen[m] == 0 {
				missing++
			} else if seen[m] > 1 {
				dup++
			}
		}
	}
	return fmt.Sprintf("dup=%d foreign=0 rejected=0 missing=%d left=0 unclosed=0 timeouts=%d %s", dup, missing, timeouts.Load(), raceObs())
}

// pubZeroTimeout: unbuffered subscribers with WithTimeout(0) and WithTimeout(-1s), in both option orders, nobody receiving:
// every message is dropped (OnTimeout once per message and subscriber) and no delivery goroutine is left — well within 2 s.
func pubZeroTimeout(M int) string {
	p := publisher.NewPublication[int]()
	var timeouts atomic.Int64
	cb := publisher.OnTimeout(func(int) { timeouts.Add(1) })
	p.Subscribe(0, publisher.WithTimeout[int](0), cb)
	p.Subscribe(0, cb, publisher.WithTimeout[int](0))
	p.Subscribe(0, publisher.WithTimeout[int](-time.Second), cb)
	const N = 3
	for m := 1; m <= M; m++ {
		p.Publish(m)
	}
	deadline := time.Now().Add(2 * time.Second)
	for timeouts.Load() < int64(N*M) && time.Now().Before(deadline) {
		time.Sleep(time.Millisecond)
	}
	late := N*M - int(timeouts.Load())
	left := 0
	if gs := settle("toolchest/publisher.", func() int64 { return 0 }, 2*time.Second); gs != nil {
		left = len(gs)
	} else {
		left = 1
	}
	return fmt.Sprintf("dup=0 foreign=0 rejected=0 missing=0 left=%d unclosed=0 timeouts=0 latedrop=%d %s", left, late, raceObs())
}

// pubChurn: a message published after Subscribe has returned reaches the new subscriber, however often subscribers come
// and go and whoever else is publishing at the time.
func pubChurn(iters, pad, pubs int) string {
	p := publisher.NewPublication[int]()
	for i := 0; i < pad; i++ {
		p.Subscribe(0, publisher.WithFilter(func(int) bool { return false }))
	}
	var stop atomic.Bool
	var wg sync.WaitGroup
	for k := 0; k < pubs; k++ {
		wg.Add(1)
		go func() {
			defer wg.Done()
			for !stop.Load() {
				p.Publish(-1)
			}
		}()
	}
	missing, foreign, dup := 0, 0, 0
	deadline := time.Now().Add(20 * time.Second)
	for i := 1; i <= iters && time.Now().Before(deadline); i++ {
		sub := p.Subscribe(4, publisher.WithFilter(func(v int) bool { return v > 0 }), publisher.WithTimeout[int](20*time.Second))
		p.Publish(i)
		select {
		case v, ok := <-sub.Receive():
			if !ok || v != i {
				foreign++
			}
		case <-time.After(2 * time.Second):
			missing++
		}
		sub.Close()
		for v := range sub.Receive() { // whatever else was buffered: only this marker could be, and only once
			if v == i {
				dup++
			} else {
				foreign++
			}
		}
		if missing > 3 {
			break
		}
	}
	stop.Store(true)
	wg.Wait()
	p.Close()
	left := 0
	if gs := settle("toolchest/publisher.", func() int64 { return 0 }, 5*time.Second); gs != nil {
		for _, g := range gs {
			if g.mentions("Publish.func") {
				left++
			}
		}
	}
	return fmt.Sprintf("dup=%d foreign=%d rejected=0 missing=%d left=%d unclosed=0 %s", dup, foreign, missing, left, raceObs())
}

func atoiOr(s string, d int) int {
	if s == "" {
		return d
	}
	return atoi(s)
}

func pubStress(P, S, M, closers int, seed uint64, pclosers, late, zero, selfclose, pad int) string {
	p := publisher.NewPublication[int]()
	for i := 0; i < pad; i++ {
		p.Subscribe(0, publisher.WithFilter(func(int) bool { return false }))
	}
	type subRec struct {
		s       *publisher.Subscriber[int]
		even    bool
		got     []int
		closedA bool // a closer targets it
	}
	rg := newRng(seed)
	subs := make([]*subRec, S)
	// the subscribers register concurrently (every interleaving of Subscribe is in the quantifier)
	var wgS sync.WaitGroup
	startS := make(chan struct{})
	for i := range subs {
		sr := &subRec{even: rg.chance(1, 3)}
		buf := rg.intn(4)
		subs[i] = sr
		noWait := i < zero
		if noWait {
			sr.closedA = true // a subscriber that does not wait is not owed every message
		}
		wgS.Add(1)
		go func() {
			defer wgS.Done()
			opts := []publisher.SubscriberOption[int]{publisher.WithTimeout[int](20 * time.Second)}
			if noWait {
				opts = []publisher.SubscriberOption[int]{publisher.WithTimeout[int](0)}
			}
			if sr.even {
				opts = append(opts, publisher.WithFilter(func(v int) bool { return v%2 == 0 }))
			}
			<-startS
			sr.s = p.Subscribe(buf, opts...)
		}()
	}
	close(startS)
	wgS.Wait()
	for c := 0; c < closers && c < S; c++ {
		subs[c].closedA = true
	}
	if pclosers > 0 {
		// the publication itself is closed while publishers run: nobody is owed every message
		for _, sr := range subs {
			sr.closedA = true
		}
	}
	// "evict the slow consumer": nobody receives from these; the first delivery that times out closes the subscriber
	// from inside its OnTimeout callback.  Afterwards the channel must be closed and no delivery goroutine may remain.
	selfSubs := make([]*publisher.Subscriber[int], selfclose)
	var selfFired atomic.Int64
	for i := range selfSubs {
		i := i
		selfSubs[i] = p.Subscribe(0, publisher.WithTimeout[int](5*time.Millisecond), publisher.OnTimeout(func(int) {
			selfFired.Add(1)
			selfSubs[i].Close()
		}))
	}
	// a subscriber whose OnFiltered callback calls back into the library: it closes the subscriber that rejected the message
	if selfclose > 0 {
		var fsub *publisher.Subscriber[int]
		var once sync.Once
		fsub = p.Subscribe(1, publisher.WithFilter(func(int) bool { return false }), publisher.OnFiltered(func(int) {
			once.Do(func() { fsub.Close() })
		}))
		selfSubs = append(selfSubs, fsub)
	}
	var wgR, wgP sync.WaitGroup
	for _, sr := range subs {
		wgR.Add(1)
		go func(sr *subRec) {
			defer wgR.Done()
			for v := range sr.s.Receive() {
				sr.got = append(sr.got, v)
			}
		}(sr)
	}
	for pi := 0; pi < P; pi++ {
		wgP.Add(1)
		go func(pi int) {
			defer wgP.Done()
			for m := 0; m < M; m++ {
				p.Publish((pi+1)*100000 + m + 1)
			}
		}(pi)
	}
	// late subscribers register while the publishers run; every one has the even-only filter and is judged on
	// what it receives (never an odd value, never a duplicate, never a foreign value), not on completeness
	lateRecs := make([]*subRec, late)
	var lateMu sync.Mutex
	var wgLate sync.WaitGroup // every late Subscribe has returned (so that the final Close reaches it)
	for li := 0; li < late; li++ {
		nap := time.Duration(rg.intn(400+pad*6)) * time.Microsecond
		buf := rg.intn(4)
		many := rg.chance(1, 2)
		wgR.Add(1)
		wgLate.Add(1)
		go func(li int) {
			defer wgR.Done()
			time.Sleep(nap)
			opts := []publisher.SubscriberOption[int]{}
			if many {
				// many options before the filter: the window in which a half-configured subscriber would be visible
				for k := 0; k < 200; k++ {
					opts = append(opts, publisher.WithTimeout[int](20*time.Second))
				}
			}
			opts = append(opts, publisher.WithFilter(func(v int) bool { return v%2 == 0 }), publisher.WithTimeout[int](20*time.Second))
			sr := &subRec{even: true, closedA: true}
			sr.s = p.Subscribe(buf, opts...)
			lateMu.Lock()
			lateRecs[li] = sr
			lateMu.Unlock()
			// a message published after Subscribe has returned must reach the new subscriber (it keeps receiving)
			p.Publish((P+1)*100000 + 2*(li+1))
			wgLate.Done()
			for v := range sr.s.Receive() {
				sr.got = append(sr.got, v)
			}
		}(li)
	}
	// closers race with the publishers; two goroutines close the same subscriber
	var wgC sync.WaitGroup
	for c := 0; c < closers && c < S; c++ {
		for k := 0; k < 2; k++ {
			wgC.Add(1)
			nap := time.Duration(rg.intn(300)) * time.Microsecond
			go func(c int) {
				defer wgC.Done()
				time.Sleep(nap)
				subs[c].s.Close()
			}(c)
		}
	}
	// Publication.Close from several goroutines, racing with the subscriber closers above and with Publish
	for k := 0; k < pclosers; k++ {
		wgC.Add(1)
		nap := time.Duration(rg.intn(300)) * time.Microsecond
		go func() {
			defer wgC.Done()
			time.Sleep(nap)
			p.Close()
		}()
	}
	wgP.Wait()
	wgC.Wait()
	wgLate.Wait()
	// every delivery to a live, receiving subscriber completes promptly: wait for quiescence, then close everything (twice)
	settle("toolchest/publisher.", func() int64 { return 0 }, 10*time.Second)
	p.Close()
	p.Close()
	wgR.Wait()
	dup, foreign, rejected, missing := 0, 0, 0, 0
	for _, sr := range lateRecs {
		if sr != nil {
			subs = append(subs, sr)
		}
	}
	for _, sr := range subs {
		seen := map[int]int{}
		for _, v := range sr.got {
			seen[v]++
			pi, m := v/100000, v%100000
			if (pi < 1 || pi > P || m < 1 || m > M) && !(pi == P+1 && m >= 2 && m <= 2*late && m%2 == 0) {
				foreign++
			}
			if sr.even && v%2 != 0 {
				rejected++
			}
		}
		for _, n := range seen {
			if n > 1 {
				dup += n - 1
			}
		}
		if !sr.closedA {
			for pi := 1; pi <= P; pi++ {
				for m := 1; m <= M; m++ {
					v := pi*100000 + m
					if (!sr.even || v%2 == 0) && seen[v] == 0 {
						missing++
					}
				}
			}
		}
	}
	if pclosers == 0 {
		// nobody closed the publication before the end: every late subscriber has seen its own marker
		for li, sr := range lateRecs {
			if sr == nil {
				continue
			}
			seen := false
			for _, v := range sr.got {
				if v == (P+1)*100000+2*(li+1) {
					seen = true
				}
			}
			if !seen {
				missing++
			}
		}
	}
	left := 0
	if gs := settle("toolchest/publisher.", func() int64 { return 0 }, 5*time.Second); gs != nil {
		for _, g := range gs {
			if g.mentions("Publish.func") {
				left++
			}
		}
	}
	// every self-closing subscriber saw at least one message time out (P*M >= 1 messages, nobody receiving) unless the
	// publication was closed first; either way its channel is closed by now
	unclosed := 0
	for _, ss := range selfSubs {
		select {
		case _, ok := <-ss.Receive():
			if ok {
				unclosed++
			}
		default:
			unclosed++
		}
	}
	return fmt.Sprintf("dup=%d foreign=%d rejected=%d missing=%d left=%d unclosed=%d %s", dup, foreign, rejected, missing, left, unclosed, raceObs())
}
