package main

import (
	"syscall"
	mrand "math/rand"
	"bytes"
	"context"
	"crypto/ecdsa"
	"crypto/elliptic"
	"crypto/rand"
	"crypto/tls"
	"crypto/x509"
	"crypto/x509/pkix"
	"encoding/pem"
	"fmt"
	"io"
	"log/slog"
	"math/big"
	"net"
	"net/http"
	"os"
	"path/filepath"
	"sort"
	"strings"
	"sync"
	"time"

	"github.com/rbell/toolchest/server"
	"github.com/rbell/toolchest/server/example/grpcService"
	"github.com/rbell/toolchest/server/example/proto"
	"github.com/rbell/toolchest/server/httpMiddleware"
	"github.com/rbell/toolchest/server/serverConfig"
	"google.golang.org/grpc"
	"google.golang.org/grpc/credentials/insecure"
)

func init() {
	components["server"] = &component{gen: genServer, exec: execServer}
	// scenarios are independent and dominated by graceful-stop waits: run them in parallel child processes
	components["lifecycle"] = &component{gen: genLifecycle, exec: func(x *execCtx) { runIsolated("lifecycle", x, 120*time.Second) }}
	components["lifecycle!case"] = &component{exec: execServer}
}

// ---- C17: routes, middleware, services ----

func genServer(g *genCtx) {
	nCases := int(30 * g.scale)
	if !g.quick() {
		nCases = int(600 * g.scale)
	}
	methods := []string{"GET", "POST", "PUT", "DELETE"}
	segs := []string{"a", "b", "c"}
	mkPath := func(r *rng) string {
		p := ""
		for i, n := 0, r.rangeIn(1, 3); i < n; i++ {
			p += "/" + segs[r.intn(len(segs))]
		}
		return p
	}
	mkRoutes := func(r *rng, base int) string {
		n := r.intn(6)
		seen := map[string]bool{}
		parts := []string{}
		for i := 0; i < n; i++ {
			m, p := methods[r.intn(len(methods))], mkPath(r)
			if r.chance(1, 3) {
				p += "/" // a subtree pattern: serves everything below it
			}
			if seen[m+p] {
				continue
			}
			seen[m+p] = true
			parts = append(parts, fmt.Sprintf("%s:%s:%d", m, p, base+len(parts)+1))
		}
		if len(parts) == 0 {
			return "none"
		}
		return strings.Join(parts, ",")
	}
	for t := 0; t < nCases; t++ {
		g.newCase("kind=serve")
		r := g.rng
		httpR, httpsR := mkRoutes(r, 0), "off"
		if r.chance(2, 3) {
			httpsR = mkRoutes(r, 20)
		}
		mw := "off"
		if r.chance(3, 4) {
			names := []string{}
			for i, n := 0, r.intn(5); i < n; i++ {
				names = append(names, []string{"A", "B", "C", "LOGREQ", "LOGRESP"}[r.intn(5)])
			}
			mw = "none"
			if len(names) > 0 {
				mw = strings.Join(names, ",")
			}
		}
		grpcOn := r.intn(2)
		// bundles=2: the same middleware list (one slice) is bundled twice and the second bundle is used
		g.op("serve http=%s https=%s mw=%s grpc=%d bundles=%d gens=%d", httpR, httpsR, mw, grpcOn, 1+t%2, 1+(t/2)%3)
		// every registered route once, plus a grid of other method/path combinations
		reqs := []string{}
		for _, spec := range []struct{ l, r string }{{"http", httpR}, {"https", httpsR}} {
			if spec.r == "off" || spec.r == "none" {
				if spec.r == "none" {
					reqs = append(reqs, fmt.Sprintf("req l=%s m=GET p=/a body=0", spec.l))
				}
				continue
			}
			// net/http answers a path "/p" with a redirect when "/p/" is a registered subtree pattern; that is not modelled,
			// so such paths are not requested
			subtree := map[string]bool{}
			for _, rt := range strings.Split(spec.r, ",") {
				if f := strings.Split(rt, ":"); strings.HasSuffix(f[1], "/") {
					subtree[f[1]] = true
				}
			}
			for _, rt := range strings.Split(spec.r, ",") {
				f := strings.Split(rt, ":")
				reqs = append(reqs, fmt.Sprintf("req l=%s m=%s p=%s body=%d", spec.l, f[0], f[1], []int{0, 5, 65536}[r.intn(3)]))
				if strings.HasSuffix(f[1], "/") {
					// below a subtree route, with its method and with another one
					if below := f[1] + strings.TrimPrefix(mkPath(r), "/"); !subtree[below+"/"] {
						reqs = append(reqs, fmt.Sprintf("req l=%s m=%s p=%s body=%d", spec.l, f[0], below, []int{0, 5}[r.intn(2)]))
					}
					reqs = append(reqs, fmt.Sprintf("req l=%s m=%s p=%sz body=0", spec.l, methods[r.intn(4)], f[1]))
				}
			}
			for i := 0; i < 4; i++ {
				p := mkPath(r)
				if subtree[p+"/"] {
					continue // net/http answers such a path with a redirect to the subtree root; not modelled, not requested
				}
				reqs = append(reqs, fmt.Sprintf("req l=%s m=%s p=%s body=%d", spec.l, methods[r.intn(4)], p, []int{0, 7}[r.intn(2)]))
			}
		}
		for _, q := range reqs {
			g.op("%s", q)
		}
		if grpcOn == 1 {
			g.op("grpc name=w%d", r.intn(100))
		}
		g.op("stop ctx=ample")
	}
	// the logging pair in both orders around every manner of handler, with small and large bodies, several requests
	// per connection (appended: every case has its own PRNG stream, the cases above are unchanged)
	nPair := 6
	if !g.quick() {
		nPair = 24
	}
	for t := 0; t < nPair; t++ {
		g.newCase("kind=serve")
		r := g.rng
		names := [][]string{{"LOGREQ", "LOGRESP"}, {"LOGRESP", "LOGREQ"}, {"LOGREQ", "A", "LOGRESP"}, {"B", "LOGREQ", "LOGRESP", "LOGREQ"},
			{"LOGREQ", "LOGREQ", "LOGRESP", "LOGRESP"}, {"LOGRESP", "C", "LOGREQ", "LOGRESP"}}[t%6]
		routes := []string{}
		for i := 1; i <= 5; i++ {
			routes = append(routes, fmt.Sprintf("%s:/m%d:%d", []string{"POST", "PUT"}[r.intn(2)], i, i))
		}
		g.op("serve http=%s https=off mw=%s grpc=0 bundles=%d gens=%d", strings.Join(routes, ","), strings.Join(names, ","), 1+t%2, 1+(t/2)%2)
		for rep := 0; rep < 3; rep++ {
			for _, rt := range routes {
				f := strings.Split(rt, ":")
				g.op("req l=http m=%s p=%s body=%d", f[0], f[1], []int{5, 7, 40, 64, 65536}[r.intn(5)])
			}
		}
		g.op("stop ctx=ample")
	}
}

// ---- C18: start / stop scenarios ----

func genLifecycle(g *genCtx) {
	reps := 1
	if !g.quick() {
		reps = int(10 * g.scale)
		if reps < 1 {
			reps = 1
		}
	}
	subsets := []string{"http", "https", "grpc", "http,https", "http,grpc", "https,grpc", "http,https,grpc"}
	for rep := 0; rep < reps; rep++ {
		for _, ls := range subsets {
			for _, inflight := range []int{0, 1, 4} {
				for _, ctx := range []string{"ample", "expired"} {
					for _, timing := range []string{"ready", "immediate"} {
						if timing == "immediate" && inflight > 0 {
							continue // requests need a reachable listener
						}
						g.newCase("kind=lifecycle")
						g.op("scenario listeners=%s inflight=%d ctx=%s timing=%s", ls, inflight, ctx, timing)
					}
				}
			}
			if strings.Contains(ls, ",") && (strings.Contains(ls, "http")) {
				// a context that is ample for the request as a whole (3 s for a request that needs 1.8 s more) — but not if
				// every provider only got a share of it
				g.newCase("kind=lifecycle")
				g.op("scenario listeners=%s inflight=1 ctx=tight timing=ready", ls)
			}
			if strings.Contains(ls, "http") {
				// Stop is retried: a first Stop with an expired context gives up with the request still running, then a second
				// Stop with an ample context — which has to wait for that request like any other Stop
				g.newCase("kind=lifecycle")
				g.op("scenario listeners=%s inflight=%d ctx=retry timing=ready", ls, 1+len(ls)%3)
			}
			// the application's running context (the one given to NewServer) is cancelled, then Stop gets an ample context
			g.newCase("kind=lifecycle")
			g.op("scenario listeners=%s inflight=%d ctx=runcancel timing=ready", ls, 1+len(ls)%2)
		}
	}
}

type recLog struct {
	mu    sync.Mutex
	lines map[string][]string // request id -> trace
	saw   map[string]string   // request id -> what the handler saw
}

// freePort picks a port that is free right now and reserves it for the lifetime of this process.  Cases run in
// parallel child processes (and several checks may run side by side): asking the kernel for an ephemeral port (":0")
// hands the same numbers to siblings one after the other, and even a random port can be picked by a sibling in the
// moment between our server's Stop and our own re-bind probe.  So every harness process takes an advisory file lock
// per port number (held until it exits): two harness processes never use the same port at the same time.
var (
	portRng   = mrand.New(mrand.NewSource(time.Now().UnixNano() ^ int64(os.Getpid())<<20))
	portLocks = map[int]*os.File{}
)

func freePort() int {
	dir := filepath.Join(os.TempDir(), "tvharness-ports")
	os.MkdirAll(dir, 0o777)
	for i := 0; i < 400; i++ {
		p := 15000 + portRng.Intn(45000)
		if portLocks[p] != nil {
			continue
		}
		f, err := os.OpenFile(filepath.Join(dir, fmt.Sprint(p)), os.O_CREATE|os.O_RDWR, 0o666)
		if err != nil {
			continue
		}
		if syscall.Flock(int(f.Fd()), syscall.LOCK_EX|syscall.LOCK_NB) != nil {
			f.Close() // another harness process owns this port number right now
			continue
		}
		l, err := net.Listen("tcp", fmt.Sprintf(":%d", p))
		if err != nil {
			f.Close()
			continue
		}
		l.Close()
		portLocks[p] = f
		return p
	}
	return 0
}

func selfSigned(dir string) (string, string, error) {
	key, err := ecdsa.GenerateKey(elliptic.P256(), rand.Reader)
	if err != nil {
		return "", "", err
	}
	tmpl := &x509.Certificate{SerialNumber: big.NewInt(1), Subject: pkix.Name{CommonName: "localhost"},
		NotBefore: time.Now().Add(-time.Hour), NotAfter: time.Now().Add(24 * time.Hour),
		KeyUsage: x509.KeyUsageDigitalSignature | x509.KeyUsageCertSign, ExtKeyUsage: []x509.ExtKeyUsage{x509.ExtKeyUsageServerAuth},
		IsCA: true, BasicConstraintsValid: true, DNSNames: []string{"localhost"}, IPAddresses: []net.IP{net.ParseIP("127.0.0.1")}}
	der, err := x509.CreateCertificate(rand.Reader, tmpl, tmpl, &key.PublicKey, key)
	if err != nil {
		return "", "", err
	}
	kb, _ := x509.MarshalECPrivateKey(key)
	cf, kf := filepath.Join(dir, "cert.pem"), filepath.Join(dir, "key.pem")
	os.WriteFile(cf, pem.EncodeToMemory(&pem.Block{Type: "CERTIFICATE", Bytes: der}), 0600)
	os.WriteFile(kf, pem.EncodeToMemory(&pem.Block{Type: "EC PRIVATE KEY", Bytes: kb}), 0600)
	return cf, kf, nil
}

type liveServer struct {
	srv       *server.Server
	wg        *sync.WaitGroup
	ports     map[string]int
	log       *recLog
	client    *http.Client
	gate      chan struct{} // handlers of path /block wait on it
	entered   chan struct{}
	ggate     chan struct{} // gRPC calls with name "block" wait on it
	gentered  chan struct{}
	dir       string
	cancelRun context.CancelFunc
}

// gateHello is the HelloService of the lifecycle scenarios: a call with name "block" stays in flight until released.
type gateHello struct {
	proto.UnimplementedHelloServiceServer
	ls *liveServer
}

func (h *gateHello) SayHello(ctx context.Context, req *proto.HelloRequest) (*proto.HelloReply, error) {
	if req.GetName() == "block" {
		h.ls.gentered <- struct{}{}
		select {
		case <-h.ls.ggate:
		case <-ctx.Done():
			return nil, ctx.Err()
		}
	}
	return &proto.HelloReply{Message: "Hello, " + req.GetName()}, nil
}

// tightCtx: the Stop context is 3 s and the in-flight request is released 1.8 s after Stop was called.
var tightCtx bool

// buildGens: how many servers are built from the configuration (the last one is used).
var buildGens = 1

// runCancel: the running context given to NewServer is cancelled before Stop (ample context) is called.
var runCancel bool

// retryCtx: a first Stop with an expired context precedes the Stop (ample context) the scenario observes.
var retryCtx bool

// slowStartLog: the caller-supplied logger takes its time over the "Starting …" lines (a logger that writes to a slow
// sink).  A Stop that follows Start immediately then arrives before the providers have begun to listen.
var slowStartLog bool

type slowLogger struct{ *slog.Logger }

func (l *slowLogger) nap(msg string) {
	if strings.HasPrefix(msg, "Starting") {
		time.Sleep(25 * time.Millisecond)
	}
}
func (l *slowLogger) InfoContext(ctx context.Context, msg string, args ...any) {
	l.nap(msg)
	l.Logger.InfoContext(ctx, msg, args...)
}
func (l *slowLogger) Info(msg string, args ...any) { l.nap(msg); l.Logger.Info(msg, args...) }

// bundleTwice is set per `serve` operation (each case runs in its own process).
var bundleTwice bool

func (ls *liveServer) handler(id int) http.HandlerFunc {
	return func(w http.ResponseWriter, r *http.Request) {
		early := id%5 == 3 && r.ContentLength >= 0 && r.ContentLength <= 64 && r.URL.Path != "/block"
		if early {
			// a handler that starts its answer before it has read the (small) request body
			w.Header().Set("X-H", fmt.Sprint(id))
			w.Header().Set("Content-Type", "application/x-tv")
			w.WriteHeader(210 + id)
			w.Write([]byte(fmt.Sprintf("h%d:", id)))
		}
		body, _ := io.ReadAll(r.Body)
		rid := r.Header.Get("X-Rid")
		ls.log.mu.Lock()
		cred := strings.Join([]string{r.Header.Get("Authorization"), r.Header.Get("Cookie"), r.Header.Get("X-Api-Key"), strings.Join(r.Header.Values("X-Multi"), ",")}, "|")
		ls.log.saw[rid] = fmt.Sprintf("%d:%s:%s:%s:%d:%s:%s", id, r.Method, r.URL.Path, r.Header.Get("X-Test"), len(body), sum(body), sum([]byte(cred)))
		ls.log.lines[rid] = append(ls.log.lines[rid], fmt.Sprintf("h%d", id))
		ls.log.mu.Unlock()
		if r.URL.Path == "/block" {
			ls.entered <- struct{}{}
			<-ls.gate
		}
		if early {
			w.Write(body)
			return
		}
		w.Header().Set("X-H", fmt.Sprint(id))
		if id%5 == 4 {
			// no Content-Type, no WriteHeader, the body in several writes: net/http sniffs the type from the first 512 bytes
			// of what is written before the header goes out ("\n<html>…" is text/html), whatever the chunking
			w.Write([]byte("\n"))
			w.Write([]byte(fmt.Sprintf("<html>h%d:", id)))
			w.Write(body)
			return
		}
		w.Header().Set("Content-Type", "application/x-tv")
		// the ways a handler may legitimately answer; the client must see status 210+id and the same body in every one
		switch id % 5 {
		case 1:
			// an informational response first (103 Early Hints), then the final status
			w.Header().Set("Link", "</s.css>; rel=preload")
			w.WriteHeader(http.StatusEarlyHints)
			w.WriteHeader(210 + id)
		case 2:
			// a superfluous second WriteHeader is ignored by net/http
			w.WriteHeader(210 + id)
			w.WriteHeader(http.StatusInternalServerError)
		case 3:
			w.WriteHeader(210 + id)
			if fl, ok := w.(http.Flusher); ok {
				fl.Flush()
			}
		default:
			w.WriteHeader(210 + id)
		}
		w.Write([]byte(fmt.Sprintf("h%d:", id)))
		w.Write(body)
	}
}

func sum(b []byte) string {
	h := uint32(2166136261)
	for _, c := range b {
		h = (h ^ uint32(c)) * 16777619
	}
	return fmt.Sprintf("%08x", h)
}

func (ls *liveServer) recording(name string) httpMiddleware.HttpHandlerMiddleware {
	return func(next http.HandlerFunc) http.HandlerFunc {
		return func(w http.ResponseWriter, r *http.Request) {
			rid := r.Header.Get("X-Rid")
			ls.log.mu.Lock()
			ls.log.lines[rid] = append(ls.log.lines[rid], "+"+name)
			ls.log.mu.Unlock()
			next(w, r)
			ls.log.mu.Lock()
			ls.log.lines[rid] = append(ls.log.lines[rid], "-"+name)
			ls.log.mu.Unlock()
		}
	}
}

func startServer(httpR, httpsR, mw string, grpcOn bool, blockRoutes bool) (*liveServer, error) {
	ls := &liveServer{ports: map[string]int{}, log: &recLog{lines: map[string][]string{}, saw: map[string]string{}}, gate: make(chan struct{}), entered: make(chan struct{}, 64), ggate: make(chan struct{}), gentered: make(chan struct{}, 64)}
	quiet := slog.New(slog.NewTextHandler(io.Discard, nil))
	b := serverConfig.BuildServerConfig().WithLogger(quiet)
	if slowStartLog {
		b = serverConfig.BuildServerConfig().WithLogger(&slowLogger{Logger: quiet})
	}
	addRoutes := func(spec string, add func(m, p string, h http.HandlerFunc)) {
		if spec != "none" {
			for _, rt := range strings.Split(spec, ",") {
				f := strings.Split(rt, ":")
				add(f[0], f[1], ls.handler(atoi(f[2])))
			}
		}
		if blockRoutes {
			add("GET", "/block", ls.handler(85))
		}
	}
	if httpR != "off" {
		ls.ports["http"] = freePort()
		hb := serverConfig.BuildHttpServiceConfig().WithPort(fmt.Sprint(ls.ports["http"]))
		addRoutes(httpR, func(m, p string, h http.HandlerFunc) { hb.AddRoute(m, p, h) })
		if mw != "off" {
			chain := []httpMiddleware.HttpHandlerMiddleware{}
			if mw != "none" {
				for _, n := range strings.Split(mw, ",") {
					switch n {
					case "LOGREQ":
						chain = append(chain, httpMiddleware.LogRequest(quiet))
					case "LOGRESP":
						chain = append(chain, httpMiddleware.LogResponse(quiet))
					default:
						chain = append(chain, ls.recording(n))
					}
				}
			}
			bundle := httpMiddleware.BundleMiddleware(chain...)
			if bundleTwice {
				bundle = httpMiddleware.BundleMiddleware(chain...)
			}
			hb.UsingMiddleWare(bundle)
		}
		b.WithHttpServiceConfig(hb)
	}
	if httpsR != "off" {
		dir, err := os.MkdirTemp("", "tvcert")
		if err != nil {
			return nil, err
		}
		ls.dir = dir
		cf, kf, err := selfSigned(dir)
		if err != nil {
			return nil, err
		}
		ls.ports["https"] = freePort()
		sb := serverConfig.BuildHttpsServiceConfig().WithPort(fmt.Sprint(ls.ports["https"])).WithCertFile(cf).WithKeyFile(kf)
		addRoutes(httpsR, func(m, p string, h http.HandlerFunc) { sb.AddRoute(m, p, h) })
		b.WithHttpsServiceConfig(sb)
	}
	if grpcOn {
		ls.ports["grpc"] = freePort()
		var grpcImpl any = &grpcService.HelloService{}
		if blockRoutes {
			grpcImpl = &gateHello{ls: ls}
		}
		gb := serverConfig.BuildGrpcServerConfig().WithPort(fmt.Sprint(ls.ports["grpc"])).RegisterImplementation(&proto.HelloService_ServiceDesc, grpcImpl)
		b.WithGrpcServiceConfig(gb)
	}
	ls.wg = &sync.WaitGroup{}
	runCtx, cancel := context.WithCancel(context.Background())
	ls.cancelRun = cancel
	cfg := b.Build()
	if buildGens > 1 {
		// the configuration has been used before: earlier servers were built from it (and never started, or long stopped)
		for i := 1; i < buildGens; i++ {
			if _, err := server.NewServer(cfg, context.Background(), &sync.WaitGroup{}); err != nil {
				return nil, err
			}
		}
	}
	s, err := server.NewServer(cfg, runCtx, ls.wg)
	if err != nil {
		return nil, err
	}
	ls.srv = s
	ls.client = &http.Client{Timeout: 20 * time.Second, Transport: &http.Transport{TLSClientConfig: &tls.Config{InsecureSkipVerify: true}, DisableKeepAlives: true}}
	return ls, nil
}

func (ls *liveServer) reachable(l string, wait time.Duration) bool {
	deadline := time.Now().Add(wait)
	for time.Now().Before(deadline) {
		c, err := net.DialTimeout("tcp", fmt.Sprintf("127.0.0.1:%d", ls.ports[l]), 200*time.Millisecond)
		if err == nil {
			c.Close()
			return true
		}
		time.Sleep(5 * time.Millisecond)
	}
	return false
}

var ridCounter int

func (ls *liveServer) request(l, method, path string, bodyLen int) string {
	ridCounter++
	rid := fmt.Sprint(ridCounter)
	body := make([]byte, bodyLen)
	for i := range body {
		body[i] = byte('a' + i%23)
	}
	scheme := "http"
	if l == "https" {
		scheme = "https"
	}
	req, _ := http.NewRequest(method, fmt.Sprintf("%s://127.0.0.1:%d%s", scheme, ls.ports[l], path), bytes.NewReader(body))
	req.Header.Set("X-Rid", rid)
	req.Header.Set("X-Test", "t"+rid)
	if bodyLen%2 == 1 {
		// credential-style headers (and a multi-valued one): the handler must see them unchanged
		req.Header.Set("Authorization", "Bearer s3cr3t-token")
		req.Header.Set("Cookie", "session=abc123")
		req.Header.Set("X-Api-Key", "k-123")
		req.Header.Add("X-Multi", "one")
		req.Header.Add("X-Multi", "two")
	}
	resp, err := ls.client.Do(req)
	if err != nil {
		return "error=" + strings.ReplaceAll(fmt.Sprintf("%T", err), " ", "_")
	}
	defer resp.Body.Close()
	rb, _ := io.ReadAll(resp.Body)
	ls.log.mu.Lock()
	saw := ls.log.saw[rid]
	trace := strings.Join(ls.log.lines[rid], ">")
	ls.log.mu.Unlock()
	if saw == "" {
		saw = "none"
	} else {
		// normalise the per-request test header so the observation does not depend on the request counter
		saw = strings.Replace(saw, ":t"+rid+":", ":same:", 1)
	}
	if trace == "" {
		trace = "none"
	}
	echoOK := 0
	if i := bytes.IndexByte(rb, ':'); i >= 0 && bytes.Equal(rb[i+1:], body) {
		echoOK = 1
	}
	return fmt.Sprintf("status=%d xh=%s saw=%s bodysum=%s echo=%d trace=%s ct=%s", resp.StatusCode, orDash(resp.Header.Get("X-H")), saw, sum(body), echoOK, trace,
		orDash(strings.ReplaceAll(resp.Header.Get("Content-Type"), " ", "_")))
}

func orDash(s string) string {
	if s == "" {
		return "-"
	}
	return s
}

func (ls *liveServer) grpcCall(name string) string {
	to := 5 * time.Second
	if name == "block" {
		to = 40 * time.Second // an in-flight call must not end by the client giving up
	}
	ctx, cancel := context.WithTimeout(context.Background(), to)
	defer cancel()
	conn, err := grpc.NewClient(fmt.Sprintf("127.0.0.1:%d", ls.ports["grpc"]), grpc.WithTransportCredentials(insecure.NewCredentials()))
	if err != nil {
		return "error=dial"
	}
	defer conn.Close()
	rep, err := proto.NewHelloServiceClient(conn).SayHello(ctx, &proto.HelloRequest{Name: name})
	if err != nil {
		return "error=call"
	}
	return "reply=" + strings.ReplaceAll(rep.Message, " ", "_")
}

func (ls *liveServer) stop(ample bool) (stopRet int, stopErr int) {
	ctx := context.Background()
	var cancel context.CancelFunc
	if ample && tightCtx {
		ctx, cancel = context.WithTimeout(ctx, 3*time.Second)
	} else if ample {
		ctx, cancel = context.WithTimeout(ctx, 20*time.Second)
	} else {
		ctx, cancel = context.WithCancel(ctx)
		cancel()
	}
	defer cancel()
	done := make(chan error, 1)
	go func() { done <- ls.srv.Stop(ctx) }()
	select {
	case err := <-done:
		if err != nil {
			return 1, 1
		}
		return 1, 0
	case <-time.After(30 * time.Second):
		return 0, 0
	}
}

func (ls *liveServer) portsFree() string {
	names := []string{}
	for l, p := range ls.ports {
		ok := false
		for i := 0; i < 100 && !ok; i++ {
			if lst, err := net.Listen("tcp", fmt.Sprintf(":%d", p)); err == nil {
				lst.Close()
				ok = true
			} else {
				time.Sleep(10 * time.Millisecond)
			}
		}
		if ok {
			names = append(names, l)
		}
	}
	sort.Strings(names)
	if len(names) == 0 {
		return "-"
	}
	return strings.Join(names, ",")
}

func execServer(x *execCtx) {
	var ls *liveServer
	cleanup := func() {
		if ls != nil && ls.dir != "" {
			os.RemoveAll(ls.dir)
		}
	}
	defer cleanup()
	for x.in.Scan() {
		line := x.in.Text()
		if strings.HasPrefix(line, "case ") || line == "" {
			fmt.Fprintln(x.w, line)
			continue
		}
		toks := strings.Fields(line)
		f := fields(toks[1:])
		obs := protect(func() string {
			switch toks[0] {
			case "serve":
				cleanup()
				var err error
				bundleTwice = f["bundles"] == "2"
				buildGens = 1
				if f["gens"] != "" {
					buildGens = atoi(f["gens"])
				}
				ls, err = startServer(f["http"], f["https"], f["mw"], f["grpc"] == "1", false)
				if err != nil {
					return "error=" + err.Error()
				}
				t0 := time.Now()
				if err := ls.srv.Start(context.Background()); err != nil {
					return "starterr"
				}
				quick := b2i(time.Since(t0) < 2*time.Second)
				up := []string{}
				for _, l := range []string{"grpc", "http", "https"} {
					if _, ok := ls.ports[l]; ok && ls.reachable(l, 5*time.Second) {
						up = append(up, l)
					}
				}
				u := "-"
				if len(up) > 0 {
					u = strings.Join(up, ",")
				}
				return fmt.Sprintf("startret=%d reachable=%s", quick, u)
			case "req":
				if ls == nil {
					return "bad-op:no-server"
				}
				return ls.request(f["l"], f["m"], f["p"], atoi(f["body"]))
			case "grpc":
				if ls == nil {
					return "bad-op:no-server"
				}
				return ls.grpcCall(f["name"])
			case "stop":
				if ls == nil {
					return "bad-op:no-server"
				}
				ret, serr := ls.stop(f["ctx"] == "ample")
				wgDone := make(chan struct{})
				go func() { ls.wg.Wait(); close(wgDone) }()
				released := 0
				select {
				case <-wgDone:
					released = 1
				case <-time.After(5 * time.Second):
				}
				return fmt.Sprintf("stopret=%d stoperr=%d wgreleased=%d portsfree=%s", ret, serr, released, ls.portsFree())
			case "scenario":
				tightCtx = f["ctx"] == "tight"
				retryCtx = f["ctx"] == "retry"
				runCancel = f["ctx"] == "runcancel"
				return runScenario(f["listeners"], atoi(f["inflight"]), f["ctx"] == "ample" || tightCtx || retryCtx || runCancel, f["timing"] == "ready")
			}
			return "bad-op"
		})
		x.out(line, obs)
	}
}

// runScenario: one C18 scenario on real loopback servers.
func runScenario(listeners string, inflight int, ample, ready bool) string {
	has := map[string]bool{}
	for _, l := range strings.Split(listeners, ",") {
		has[l] = true
	}
	httpR, httpsR := "off", "off"
	if has["http"] {
		httpR = "GET:/a:1"
	}
	if has["https"] {
		httpsR = "GET:/a:2"
	}
	slowStartLog = !ready && inflight == 0 && len(listeners)%2 == 0 // half of the Start-then-Stop-at-once scenarios
	ls, err := startServer(httpR, httpsR, "off", has["grpc"], true)
	if err != nil {
		return "error=" + err.Error()
	}
	defer func() {
		if ls.dir != "" {
			os.RemoveAll(ls.dir)
		}
	}()
	t0 := time.Now()
	startErr := ls.srv.Start(context.Background())
	startRet := b2i(startErr == nil && time.Since(t0) < 2*time.Second)
	up := []string{}
	if ready {
		for _, l := range []string{"grpc", "http", "https"} {
			if _, ok := ls.ports[l]; ok && ls.reachable(l, 5*time.Second) {
				up = append(up, l)
			}
		}
	}
	// in-flight requests: blocked in their handler until released after Stop was called
	webL := ""
	if has["http"] {
		webL = "http"
	} else if has["https"] {
		webL = "https"
	}
	results := make(chan string, inflight)
	started := 0
	if webL != "" && ready {
		for i := 0; i < inflight; i++ {
			go func() { results <- ls.request(webL, "GET", "/block", 3) }()
		}
		for i := 0; i < inflight; i++ {
			select {
			case <-ls.entered:
				started++
			case <-time.After(5 * time.Second):
			}
		}
	}
	// in-flight gRPC calls (held by the gated service until released)
	gres := make(chan string, inflight)
	gstarted := 0
	if has["grpc"] && ready && !retryCtx { // (a first, expired Stop cuts gRPC calls off: none are held in a retry scenario)
		for i := 0; i < inflight; i++ {
			go func() { gres <- ls.grpcCall("block") }()
		}
		for i := 0; i < inflight; i++ {
			select {
			case <-ls.gentered:
				gstarted++
			case <-time.After(5 * time.Second):
			}
		}
	}
	if runCancel {
		ls.cancelRun()
		time.Sleep(5 * time.Millisecond)
	}
	if retryCtx {
		ls.stop(false) // gives up at once; what it returns is the business of the expired-context scenarios
	}
	stopDone := make(chan [2]int, 1)
	go func() { r, e := ls.stop(ample); stopDone <- [2]int{r, e} }()
	time.Sleep(30 * time.Millisecond) // Stop is under way (blocked on the in-flight requests with an ample context)
	if tightCtx {
		time.Sleep(1770 * time.Millisecond)
	}
	early := 0
	select {
	case v := <-stopDone:
		early = 1 // Stop returned while requests were still in flight
		stopDone <- v
	default:
	}
	close(ls.gate) // let the handlers finish
	// gRPC: with an ample context the calls are released and Stop waits for them; with an expired context Stop has to
	// cut them off by itself — they stay held until Stop has returned (or 5 s have passed)
	prompt := 1
	if !ample && gstarted > 0 {
		select {
		case v := <-stopDone:
			stopDone <- v
		case <-time.After(5 * time.Second):
			prompt = 0
		}
	}
	close(ls.ggate)
	gdone := 0
	for i := 0; i < gstarted; i++ {
		select {
		case r := <-gres:
			if r == "reply=Hello,_block" {
				gdone++
			}
		case <-time.After(10 * time.Second):
		}
	}
	completed := 0
	for i := 0; i < started; i++ {
		select {
		case r := <-results:
			if strings.HasPrefix(r, "status=295") {
				completed++
			}
		case <-time.After(10 * time.Second):
		}
	}
	sr := <-stopDone
	wgDone := make(chan struct{})
	go func() { ls.wg.Wait(); close(wgDone) }()
	released := 0
	select {
	case <-wgDone:
		released = 1
	case <-time.After(5 * time.Second):
	}
	u := "-"
	if len(up) > 0 {
		u = strings.Join(up, ",")
	}
	if !ready {
		u = "skipped"
	}
	return fmt.Sprintf("startret=%d reachable=%s inflightstarted=%d completed=%d stopearly=%d stopret=%d stoperr=%d wgreleased=%d portsfree=%s grpcinflight=%d grpcdone=%d stopprompt=%d",
		startRet, u, started, completed, early*b2i(started > 0), sr[0], sr[1], released, ls.portsFree(), gstarted, gdone, prompt)
}
