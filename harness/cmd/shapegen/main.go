// shapegen: extracts "shape facts" (lock discipline of the lock-protected objects) from the Go
// sources of rbell/toolchest and prints them as a Lean data file (TV/Generated/Shape.lean).
//
// For every function of interest it walks the body in source order, tracking which mode of the
// object's mutex is held (N none, R read, W write; G = inside a `go` statement, which inherits no
// lock), and records every access to a tracked field (read / write / call:<method>) and every call
// of a method on the same receiver (self:<method>), grouped into sections: one section per lock
// acquisition, and one per access made with no lock held.
package main

import (
	"fmt"
	"go/ast"
	"go/parser"
	"go/token"
	"os"
	"path/filepath"
	"sort"
	"strings"
)

type target struct {
	file    string
	typ     string
	mutex   string
	fields  []string
	extraFn []string // free functions whose first parameter is *typ
	anyBase bool     // track `x.field` / `x.mutex` for any identifier x, in every function of the file
	name    string   // Lean definition name (default: typ with a lower-case initial)
}

var targets = []target{
	{"storage/safeMap.go", "SafeMap", "mux", []string{"m"}, []string{"TranslateToMapOf"}, false, ""},
	{"storage/genericStack.go", "GenericStack", "mux", []string{"stack"}, nil, false, ""},
	{"storage/fifoMapCache.go", "FifoMapCache", "currentPartitionMux", []string{"partitions", "valuePartitionIndex", "currentPartitionId", "maxPartitions", "partitionCapacity"}, nil, false, ""},
	{"workqueue/queue.go", "Queue", "errSubScriberMux", []string{"errorSubscribers"}, nil, false, ""},
	{"publisher/publication.go", "", "sendMux", []string{"receiveCh"}, nil, true, "subscriberChannel"},
}

type access struct{ mode, kind, field string }

type walker struct {
	recv     string
	t        target
	held     string // N R W
	deferred bool   // an unlock is deferred: held until the end
	inGo     int
	sections [][]access
	open     bool // a locked section is open
	methods  map[string]bool
}

func (w *walker) add(a access) {
	if w.held == "N" {
		w.sections = append(w.sections, []access{a})
		return
	}
	if !w.open {
		w.sections = append(w.sections, nil)
		w.open = true
	}
	w.sections[len(w.sections)-1] = append(w.sections[len(w.sections)-1], a)
}

func (w *walker) isRecvField(e ast.Expr) (string, bool) {
	sel, ok := e.(*ast.SelectorExpr)
	if !ok {
		return "", false
	}
	id, ok := sel.X.(*ast.Ident)
	if !ok || (id.Name != w.recv && !w.t.anyBase) {
		return "", false
	}
	return sel.Sel.Name, true
}

func (w *walker) tracked(f string) bool {
	for _, x := range w.t.fields {
		if x == f {
			return true
		}
	}
	return false
}

// lockCall recognises recv.mutex.<Lock|RLock|Unlock|RUnlock>()
func (w *walker) lockCall(c *ast.CallExpr) string {
	sel, ok := c.Fun.(*ast.SelectorExpr)
	if !ok {
		return ""
	}
	f, ok := w.isRecvField(sel.X)
	if !ok || f != w.t.mutex {
		return ""
	}
	return sel.Sel.Name
}

func (w *walker) expr(e ast.Expr, write bool) {
	switch x := e.(type) {
	case nil:
	case *ast.SelectorExpr:
		if f, ok := w.isRecvField(x); ok {
			if w.tracked(f) {
				k := "read"
				if write {
					k = "write"
				}
				w.add(access{w.held, k, f})
			}
			return
		}
		w.expr(x.X, false)
	case *ast.IndexExpr:
		w.expr(x.X, write)
		w.expr(x.Index, false)
	case *ast.CallExpr:
		if l := w.lockCall(x); l != "" {
			switch l {
			case "Lock":
				w.held, w.open = "W", false
			case "RLock":
				w.held, w.open = "R", false
			case "Unlock", "RUnlock":
				w.held, w.open = "N", false
			}
			return
		}
		// builtin delete(recv.f, k) writes f
		if id, ok := x.Fun.(*ast.Ident); ok && id.Name == "close" && len(x.Args) == 1 {
			w.expr(x.Args[0], true)
			return
		}
		if id, ok := x.Fun.(*ast.Ident); ok && id.Name == "delete" && len(x.Args) > 0 {
			w.expr(x.Args[0], true)
			for _, a := range x.Args[1:] {
				w.expr(a, false)
			}
			return
		}
		if sel, ok := x.Fun.(*ast.SelectorExpr); ok {
			// heap.Push / heap.Pop / heap.Fix / heap.Remove / heap.Init mutate their first argument
			if pk, ok := sel.X.(*ast.Ident); ok && pk.Name == "heap" && len(x.Args) > 0 {
				if f, ok := w.isRecvField(x.Args[0]); ok && w.tracked(f) {
					w.add(access{w.held, "write", f})
					for _, a := range x.Args[1:] {
						w.expr(a, false)
					}
					return
				}
			}
			// recv.Method(...)
			if id, ok := sel.X.(*ast.Ident); ok && id.Name == w.recv && w.methods[sel.Sel.Name] {
				w.add(access{w.held, "self:" + sel.Sel.Name, "-"})
				for _, a := range x.Args {
					w.expr(a, false)
				}
				return
			}
			// recv.field.Method(...) or recv.field.sub...
			if f, ok := w.isRecvField(sel.X); ok && w.tracked(f) {
				w.add(access{w.held, "call:" + sel.Sel.Name, f})
				for _, a := range x.Args {
					w.expr(a, false)
				}
				return
			}
		}
		w.expr(x.Fun, false)
		for _, a := range x.Args {
			w.expr(a, false)
		}
	case *ast.FuncLit:
		w.block(x.Body)
	case *ast.BinaryExpr:
		w.expr(x.X, false)
		w.expr(x.Y, false)
	case *ast.UnaryExpr:
		w.expr(x.X, false)
	case *ast.ParenExpr:
		w.expr(x.X, write)
	case *ast.StarExpr:
		w.expr(x.X, write)
	case *ast.TypeAssertExpr:
		w.expr(x.X, false)
	case *ast.SliceExpr:
		w.expr(x.X, false)
		w.expr(x.Low, false)
		w.expr(x.High, false)
	case *ast.CompositeLit:
		for _, el := range x.Elts {
			w.expr(el, false)
		}
	case *ast.KeyValueExpr:
		w.expr(x.Value, false)
	}
}

func (w *walker) stmt(s ast.Stmt) {
	switch x := s.(type) {
	case nil:
	case *ast.ExprStmt:
		w.expr(x.X, false)
	case *ast.AssignStmt:
		for _, r := range x.Rhs {
			w.expr(r, false)
		}
		for _, l := range x.Lhs {
			w.expr(l, true)
		}
	case *ast.IncDecStmt:
		w.expr(x.X, true)
	case *ast.DeferStmt:
		if l := w.lockCall(x.Call); l == "Unlock" || l == "RUnlock" {
			w.deferred = true
			return
		}
		w.expr(x.Call, false)
	case *ast.GoStmt:
		// a new goroutine inherits no lock: `go recv.M()` is recorded as go:M in place, a function
		// literal is walked with a fresh lock state
		if sel, ok := x.Call.Fun.(*ast.SelectorExpr); ok {
			if id, ok := sel.X.(*ast.Ident); ok && id.Name == w.recv && w.methods[sel.Sel.Name] {
				w.add(access{w.held, "spawn:" + sel.Sel.Name, "-"})
				return
			}
		}
		held, open, def := w.held, w.open, w.deferred
		w.held, w.open, w.deferred = "N", false, false
		w.expr(x.Call, false)
		w.held, w.open, w.deferred = held, open, def
	case *ast.ReturnStmt:
		for _, r := range x.Results {
			w.expr(r, false)
		}
	case *ast.BlockStmt:
		w.block(x)
	case *ast.IfStmt:
		w.stmt(x.Init)
		w.expr(x.Cond, false)
		w.block(x.Body)
		w.stmt(x.Else)
	case *ast.ForStmt:
		w.stmt(x.Init)
		w.expr(x.Cond, false)
		w.stmt(x.Post)
		w.block(x.Body)
	case *ast.RangeStmt:
		w.expr(x.X, false)
		w.block(x.Body)
	case *ast.SwitchStmt:
		w.stmt(x.Init)
		w.expr(x.Tag, false)
		w.block(x.Body)
	case *ast.CaseClause:
		for _, e := range x.List {
			w.expr(e, false)
		}
		for _, st := range x.Body {
			w.stmt(st)
		}
	case *ast.SelectStmt:
		w.block(x.Body)
	case *ast.CommClause:
		w.stmt(x.Comm)
		for _, st := range x.Body {
			w.stmt(st)
		}
	case *ast.SendStmt:
		if f, ok := w.isRecvField(x.Chan); ok && w.tracked(f) {
			w.add(access{w.held, "send", f})
		} else {
			w.expr(x.Chan, false)
		}
		w.expr(x.Value, false)
	case *ast.DeclStmt:
		if gd, ok := x.Decl.(*ast.GenDecl); ok {
			for _, sp := range gd.Specs {
				if vs, ok := sp.(*ast.ValueSpec); ok {
					for _, v := range vs.Values {
						w.expr(v, false)
					}
				}
			}
		}
	case *ast.LabeledStmt:
		w.stmt(x.Stmt)
	}
}

func (w *walker) block(b *ast.BlockStmt) {
	if b == nil {
		return
	}
	for _, s := range b.List {
		w.stmt(s)
	}
}

func recvOf(fd *ast.FuncDecl, t target) (string, bool) {
	typeName := func(e ast.Expr) string {
		if st, ok := e.(*ast.StarExpr); ok {
			e = st.X
		}
		if ix, ok := e.(*ast.IndexExpr); ok {
			e = ix.X
		}
		if ix, ok := e.(*ast.IndexListExpr); ok {
			e = ix.X
		}
		if id, ok := e.(*ast.Ident); ok {
			return id.Name
		}
		return ""
	}
	if fd.Recv != nil && len(fd.Recv.List) == 1 && typeName(fd.Recv.List[0].Type) == t.typ && len(fd.Recv.List[0].Names) == 1 {
		return fd.Recv.List[0].Names[0].Name, true
	}
	for _, fn := range t.extraFn {
		if fd.Recv == nil && fd.Name.Name == fn && len(fd.Type.Params.List) > 0 && len(fd.Type.Params.List[0].Names) > 0 {
			return fd.Type.Params.List[0].Names[0].Name, true
		}
	}
	return "", false
}

func main() {
	root := "/repo"
	if len(os.Args) > 1 {
		root = os.Args[1]
	}
	fmt.Println("-- GENERATED by harness/cmd/shapegen from the Go sources; do not edit.")
	fmt.Println("import TV.Model.Shape")
	fmt.Println("namespace TV.Generated")
	fmt.Println("open TV.Shape")
	for _, t := range targets {
		fset := token.NewFileSet()
		file, err := parser.ParseFile(fset, filepath.Join(root, t.file), nil, 0)
		if err != nil {
			fmt.Fprintln(os.Stderr, "parse error:", err)
			os.Exit(1)
		}
		methods := map[string]bool{}
		for _, d := range file.Decls {
			if fd, ok := d.(*ast.FuncDecl); ok {
				if _, ok := recvOf(fd, t); ok && fd.Recv != nil {
					methods[fd.Name.Name] = true
				}
			}
		}
		type fnShape struct {
			name string
			secs [][]access
		}
		var fns []fnShape
		for _, d := range file.Decls {
			fd, ok := d.(*ast.FuncDecl)
			if !ok || fd.Body == nil {
				continue
			}
			recv, ok := recvOf(fd, t)
			if !ok {
				if !t.anyBase {
					continue
				}
				recv = "_"
			}
			w := &walker{recv: recv, t: t, held: "N", methods: methods}
			w.block(fd.Body)
			if len(w.sections) == 0 {
				continue
			}
			fns = append(fns, fnShape{fd.Name.Name, w.sections})
		}
		sort.Slice(fns, func(i, j int) bool { return fns[i].name < fns[j].name })
		lower := t.name
		if lower == "" {
			lower = strings.ToLower(t.typ[:1]) + t.typ[1:]
		}
		fmt.Printf("\ndef %s : List FnShape := [\n", lower)
		for i, f := range fns {
			secs := []string{}
			for _, s := range f.secs {
				accs := []string{}
				for _, a := range s {
					kind, target := a.kind, a.field
					if i := strings.Index(kind, ":"); i > 0 {
						kind, target = kind[:i], kind[i+1:]
						if a.field != "-" {
							target = a.field + "." + target
						}
					}
					accs = append(accs, fmt.Sprintf("⟨.%s, .%s, %q⟩", a.mode, kind, target))
				}
				secs = append(secs, "["+strings.Join(accs, ", ")+"]")
			}
			comma := ","
			if i == len(fns)-1 {
				comma = ""
			}
			fmt.Printf("  ⟨%q, %v, [%s]⟩%s\n", f.name, ast.IsExported(f.name), strings.Join(secs, ", "), comma)
		}
		fmt.Println("]")
	}
	fmt.Println("\nend TV.Generated")
}
