module tvharness

go 1.23.7

require github.com/rbell/toolchest v0.0.0

replace github.com/rbell/toolchest => /repo
