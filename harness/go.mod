module tvharness

go 1.23.7

require (
	github.com/google/uuid v1.6.0
	github.com/rbell/toolchest v0.0.0
	google.golang.org/grpc v1.71.0
)

require (
	github.com/davecgh/go-spew v1.1.1 // indirect
	github.com/google/btree v1.1.3 // indirect
	github.com/pmezard/go-difflib v1.0.0 // indirect
	github.com/richardwilkes/toolbox v1.122.1 // indirect
	github.com/stretchr/objx v0.5.2 // indirect
	github.com/stretchr/testify v1.10.0 // indirect
	golang.org/x/net v0.37.0 // indirect
	golang.org/x/sys v0.31.0 // indirect
	golang.org/x/text v0.23.0 // indirect
	google.golang.org/genproto/googleapis/rpc v0.0.0-20250313205543-e70fdf4c4cb4 // indirect
	google.golang.org/protobuf v1.36.5 // indirect
	gopkg.in/yaml.v3 v3.0.1 // indirect
)

replace github.com/rbell/toolchest => /repo
