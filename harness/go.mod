module tvharness

go 1.23.7

require (
	github.com/google/uuid v1.6.0
	github.com/rbell/toolchest v0.0.0
)

require github.com/google/btree v1.1.3 // indirect

replace github.com/rbell/toolchest => /repo
